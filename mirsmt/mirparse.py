"""Reader for rustc's textual MIR (-Zunpretty=mir / -Zdump-mir).

Only the structure is parsed here: functions, argument and local declarations with their
types, basic blocks, raw statement and terminator strings.  The symbolic executor interprets
the statement strings.
"""
import re


class MirFn:
    def __init__(self, header, name, args, ret):
        self.header = header
        self.name = name            # path as printed, generics kept
        self.args = args            # [(local, type)]
        self.ret = ret
        self.locals = {}            # "_3" -> type string
        self.debug = {}             # source variable name -> place string
        self.blocks = {}            # "bb0" -> Block
        self.order = []
        self.cleanup = set()

    def __repr__(self):
        return "<MirFn %s (%d blocks)>" % (self.name, len(self.blocks))


class Block:
    def __init__(self, name, cleanup):
        self.name = name
        self.cleanup = cleanup
        self.stmts = []
        self.term = None


_FN_RE = re.compile(r"^fn (.*)$")


def split_top(s, sep=","):
    """Split on `sep` at nesting depth 0 of ()[]{}<> (-> and => arrows are not brackets)."""
    out, depth, cur = [], 0, []
    i = 0
    n = len(s)
    while i < n:
        c = s[i]
        if c in "([{":
            depth += 1
        elif c in ")]}":
            depth -= 1
        elif c == "<":
            depth += 1
        elif c == ">":
            if i > 0 and s[i - 1] in "-=":
                pass
            else:
                depth -= 1
        if c == sep and depth == 0:
            out.append("".join(cur).strip())
            cur = []
        else:
            cur.append(c)
        i += 1
    last = "".join(cur).strip()
    if last:
        out.append(last)
    return out


def _match_paren(s, start):
    """index of the bracket closing the one at s[start] (angle brackets are balanced too)."""
    depth = 0
    i = start
    while i < len(s):
        c = s[i]
        if c in "([{":
            depth += 1
        elif c in ")]}":
            depth -= 1
            if depth == 0:
                return i
        i += 1
    return -1


def parse_header(line):
    """`fn path(_1: T, _2: U) -> R {`  ->  (name, args, ret)"""
    body = line[3:].rstrip()
    if body.endswith("{"):
        body = body[:-1].rstrip()
    # the argument list is the last top-level (...) group before ' -> ' or the end
    # find ' -> ' at depth 0 from the right
    depth = 0
    arrow = -1
    i = len(body) - 1
    while i > 0:
        c = body[i]
        if c in ")]}":
            depth += 1
        elif c in "([{":
            depth -= 1
        elif c == ">" and body[i - 1] not in "-=":
            depth += 1
        elif c == "<":
            depth -= 1
        if depth == 0 and body[i - 3:i + 1] == " -> ":
            arrow = i - 3
            break
        i -= 1
    ret = "()"
    sig = body
    if arrow >= 0:
        ret = body[arrow + 4:].strip()
        sig = body[:arrow].rstrip()
    # sig ends with ')' : find matching '('
    if not sig.endswith(")"):
        return sig, [], ret
    depth = 0
    j = len(sig) - 1
    while j >= 0:
        if sig[j] == ")":
            depth += 1
        elif sig[j] == "(":
            depth -= 1
            if depth == 0:
                break
        j -= 1
    name = sig[:j]
    args = []
    for a in split_top(sig[j + 1:-1]):
        m = re.match(r"^(_\d+): (.*)$", a)
        if m:
            args.append((m.group(1), m.group(2)))
    return name, args, ret


def parse_file(path, want=None):
    """Parse every function whose header matches `want` (regex or None for all)."""
    fns = []
    cur = None
    blk = None
    wantre = re.compile(want) if want else None
    matched = set()
    with open(path, errors="replace") as f:
        for raw in f:
            line = raw.rstrip("\n")
            if cur is None:
                if line.startswith("fn ") and line.rstrip().endswith("{"):
                    if wantre and not wantre.search(line):
                        # closures (and nested closures) of a selected function are selected with it
                        i = line.find("::{closure#")
                        if i < 0 or line[3:i] not in matched:
                            continue
                    name, args, ret = parse_header(line)
                    matched.add(name)
                    cur = MirFn(line, name, args, ret)
                    for a, t in args:
                        cur.locals[a] = t
                    cur.locals["_0"] = ret
                continue
            if line == "}":
                fns.append(cur)
                cur = None
                blk = None
                continue
            s = line.strip()
            if not s or s.startswith("//"):
                continue
            m = re.match(r"^(bb\d+)( \(cleanup\))?: \{$", s)
            if m:
                blk = Block(m.group(1), bool(m.group(2)))
                cur.blocks[blk.name] = blk
                cur.order.append(blk.name)
                continue
            if blk is not None:
                if s == "}":
                    blk = None
                    continue
                s = re.sub(r"\s*// .*$", "", s)
                if not s:
                    continue
                blk.stmts.append(s)
                continue
            m = re.match(r"^let (mut )?(_\d+): (.*);$", s)
            if m:
                cur.locals[m.group(2)] = m.group(3)
                continue
            m = re.match(r"^debug (\S+) => (.*);$", s)
            if m:
                cur.debug.setdefault(m.group(1), m.group(2))
                continue
            # scope lines, coroutine layout etc. are ignored
    for fn in fns:
        for b in fn.blocks.values():
            if b.stmts:
                b.term = b.stmts.pop()
    return fns


def find(fns, pattern):
    r = re.compile(pattern)
    return [f for f in fns if r.search(f.name)]
