"""Path-forking symbolic executor over rustc MIR text (engine M).

Values are immutable Python objects around z3 terms; memory is a dict of frames plus a heap of
cells for reference-typed inputs; calls are the abstraction boundary (exact model / inlined MIR /
deterministic observer / event with havoc).  See DESIGN.md §1.2.
"""
import os
import re
import time
import z3

from mirparse import split_top

USIZE = 64
INT_TYPES = {
    "u8": (8, False), "u16": (16, False), "u32": (32, False), "u64": (64, False), "u128": (128, False),
    "usize": (USIZE, False), "i8": (8, True), "i16": (16, True), "i32": (32, True), "i64": (64, True),
    "i128": (128, True), "isize": (USIZE, True), "char": (32, False),
}

BUILTIN_ENUMS = {
    "Option": ["None", "Some"],
    "Result": ["Ok", "Err"],
    "ControlFlow": ["Continue", "Break"],
    "Poll": ["Ready", "Pending"],
    "Ordering": ["Less", "Equal", "Greater"],
    "Cow": ["Borrowed", "Owned"],
}


class Unsupported(Exception):
    pass


def kfmt(k):
    """escape-free rendering of a (nested) key"""
    if isinstance(k, tuple):
        return "(" + ",".join(kfmt(x) for x in k) + ")"
    return str(k)


# ----------------------------------------------------------------------------------------------
# values


class Val:
    pass


class BV(Val):
    def __init__(self, term, signed=False):
        self.term = term
        self.signed = signed

    def key(self):
        return "bv:" + self.term.sexpr()

    def __repr__(self):
        return "BV(%s)" % self.term


class BoolV(Val):
    def __init__(self, term):
        self.term = term

    def key(self):
        return "b:" + self.term.sexpr()

    def __repr__(self):
        return "Bool(%s)" % self.term


class Unit(Val):
    def key(self):
        return "()"

    def __repr__(self):
        return "()"


class Const(Val):
    """an uninterpreted constant (string literal, named const, fn item...)"""

    def __init__(self, text):
        self.text = text

    def key(self):
        return "const:" + self.text

    def __repr__(self):
        return "Const(%s)" % self.text


class Agg(Val):
    """struct / tuple / enum-variant aggregate with known structure"""

    def __init__(self, ty, variant, fields, names=None):
        self.ty = ty                # short type name (last path segment, no generics) or "tuple"
        self.variant = variant      # variant name or None
        self.fields = list(fields)
        self.names = names          # field names for braces structs

    def key(self):
        return "agg:%s:%s(%s)" % (self.ty, self.variant, ",".join(vkey(f) for f in self.fields))

    def __repr__(self):
        return "%s%s(%s)" % (self.ty, ("::" + self.variant) if self.variant else "",
                             ", ".join(repr(f) for f in self.fields))


class Ref(Val):
    def __init__(self, root, path=(), mutable=False):
        self.root = root            # ('local', frame_id, name) | ('heap', cell_id)
        self.path = tuple(path)
        self.mutable = mutable

    def key(self):
        return "ref:%s:%s" % (kfmt(self.root), kfmt(self.path))

    def __repr__(self):
        return "&%s%s%s" % ("mut " if self.mutable else "", self.root, list(self.path) or "")


class Opaque(Val):
    """a value whose structure is unknown; children are materialised lazily and deterministically
    from the key, `over` holds children that have been written"""

    def __init__(self, ty, key, over=None):
        self.ty = ty
        self.k = key
        self.over = over or {}

    def key(self):
        if not self.over:
            return "opq:" + kfmt(self.k)
        return "opq:%s{%s}" % (kfmt(self.k), ",".join("%s=%s" % (kfmt(p), vkey(v)) for p, v in sorted(self.over.items(), key=lambda x: str(x[0]))))

    def __repr__(self):
        return "Opaque<%s>%s" % (self.ty, self.k if not self.over else (self.k, self.over))


def vkey(v):
    return v.key()


# ----------------------------------------------------------------------------------------------
# state


def visits(n):
    """loop-head visit bound of a check: the thorough tier (VERIF_DEEP=1, set by lib/main.py) explores one more iteration of every loop"""
    import os
    return n + int(os.environ.get("VERIF_DEEP", "0") or 0)


class State:
    def __init__(self):
        self.frames = {}        # frame_id -> {local: Val}
        self.heap = {}          # cell_id -> Val
        self.pc = []            # z3 constraints
        self.trace = []         # events
        self.next_frame = 0
        self.next_cell = 0
        self.counters = {}
        self.visits = {}        # (frame_id, bb) -> count
        self.obligations = []   # (kind, cond-term, descr) collected proof obligations
        self.notes = []

    def fork(self):
        s = State()
        s.frames = {k: dict(v) for k, v in self.frames.items()}
        s.heap = dict(self.heap)
        s.pc = list(self.pc)
        s.trace = list(self.trace)
        s.next_frame = self.next_frame
        s.next_cell = self.next_cell
        s.counters = dict(self.counters)
        s.visits = dict(self.visits)
        s.obligations = list(self.obligations)
        s.notes = list(self.notes)
        return s

    def count(self, name):
        n = self.counters.get(name, 0)
        self.counters[name] = n + 1
        return n

    def new_cell(self, val):
        cid = self.next_cell
        self.next_cell += 1
        self.heap[cid] = val
        return cid


class Path:
    def __init__(self, state, ret, kind="return", info=""):
        self.state = state
        self.pc = state.pc
        self.ret = ret
        self.trace = state.trace
        self.kind = kind        # return | panic | diverge | cut | yield-drop
        self.info = info

    def events(self, pattern):
        r = re.compile(pattern)
        return [e for e in self.trace if r.search(e["callee"])]


class Event(dict):
    pass


# ----------------------------------------------------------------------------------------------
# helpers on types


def strip_generics(s):
    """remove every <...> group (keeping `<T as Trait>::f` heads readable)"""
    out = []
    depth = 0
    i = 0
    while i < len(s):
        c = s[i]
        if c == "<":
            depth += 1
        elif c == ">" and i > 0 and s[i - 1] not in "-=":
            depth -= 1
        elif depth == 0:
            out.append(c)
        i += 1
    r = "".join(out)
    while "::::" in r:
        r = r.replace("::::", "::")
    return r.strip(":") if r.endswith("::") else r


def short_type(ty):
    """last path segment of a type without generics: std::option::Option<usize> -> Option"""
    t = ty.strip()
    t = re.sub(r"^&(\'\w+ )?(mut )?", "", t)
    base = strip_generics(t)
    return base.split("::")[-1]


def generic_args(ty):
    m = re.search(r"<(.*)>$", ty.strip())
    if not m:
        return []
    return split_top(m.group(1))


def is_ref_type(ty):
    return ty.startswith("&") or ty.startswith("*const ") or ty.startswith("*mut ")


def deref_type(ty):
    t = re.sub(r"^&(\'\w+ )?(mut )?", "", ty)
    t = re.sub(r"^\*(const|mut) ", "", t)
    return t


# ----------------------------------------------------------------------------------------------


class Executor:
    def __init__(self, functions, spec=None, enums=None, max_visits=3, max_paths=20000, max_depth=12):
        self.fns = {}
        for f in functions:
            self.fns.setdefault(f.name, f)
        self.spec = spec
        self.enums = dict(BUILTIN_ENUMS)
        if enums:
            self.enums.update(enums)
        self.max_visits = max_visits
        self.max_paths = max_paths
        self.max_depth = max_depth
        self.paths = []
        self.solver = z3.Solver()
        self._lits = {}
        self.solver_time = 0.0
        self.queries = 0
        self.names = {}
        self.origin = {}        # z3 variable name -> key it was created for
        self.models = []        # (regex, handler)
        self.inline = []        # regexes of callee names to inline
        self.redirect = []      # (regex on callee, MirFn): trait call statically dispatched to this body
        self.type_hooks = []    # (regex on type string, fn(ex, state, ty, key) -> Val)
        self.pure = []          # regexes of callees that are deterministic observers even with &mut args
        self.impure = []        # regexes of callees that return a fresh value on every call
        self.consts = {}        # const text -> Val
        self.unsupported = []
        self.check_overflow = False
        self.stats = {"blocks": 0, "forks": 0, "calls": 0, "inlined": 0}

    # ---- naming ------------------------------------------------------------------------------
    def sym(self, key):
        s = kfmt(key)
        if s not in self.names:
            self.names[s] = "v%d!%s" % (len(self.names), re.sub(r"[^A-Za-z0-9_.:@-]", "_", s)[-60:])
            self.origin[self.names[s]] = s
        return self.names[s]

    def term_origins(self, term):
        """keys of the symbolic inputs a z3 term is built from"""
        seen, out, todo = set(), [], [term]
        while todo:
            t = todo.pop()
            if t.get_id() in seen:
                continue
            seen.add(t.get_id())
            if z3.is_const(t) and t.decl().kind() == z3.Z3_OP_UNINTERPRETED:
                o = self.origin.get(t.decl().name())
                out.append(o if o is not None else t.decl().name())
            todo.extend(t.children())
        return out

    # ---- fresh values ------------------------------------------------------------------------
    def fresh(self, st, ty, key):
        ty = ty.strip()
        for rx, fn in self.type_hooks:
            if re.search(rx, ty):
                v = fn(self, st, ty, key)
                if v is not None:
                    return v
        if ty == "bool":
            return BoolV(z3.Bool(self.sym(key)))
        if ty in INT_TYPES:
            w, sg = INT_TYPES[ty]
            return BV(z3.BitVec(self.sym(key), w), sg)
        if ty == "()" or ty == "!":
            return Unit()
        if ty.startswith("(") and ty.endswith(")"):
            parts = split_top(ty[1:-1])
            return Agg("tuple", None, [self.fresh(st, p, (key, i)) for i, p in enumerate(parts)])
        if is_ref_type(ty):
            inner = deref_type(ty)
            cid = st.new_cell(self.fresh(st, inner, (key, "*")))
            return Ref(("heap", cid), (), "mut " in ty[:12])
        return Opaque(ty, key)

    # ---- reading / writing places --------------------------------------------------------------
    def parse_place(self, s):
        """returns (root_local, [proj...]) with proj = ('deref',) | ('field', idx, ty) | ('downcast', name) | ('index', operand)"""
        s = s.strip()
        if re.match(r"^_\d+$", s):
            return s, []
        if s.startswith("(*") and s.endswith(")"):
            r, p = self.parse_place(s[2:-1])
            return r, p + [("deref",)]
        if s.startswith("(") and s.endswith(")"):
            inner = s[1:-1]
            # (P as Variant)
            m = re.match(r"^(.*) as ([\w#]+)$", inner)
            if m and self._balanced(m.group(1)):
                r, p = self.parse_place(m.group(1))
                return r, p + [("downcast", m.group(2))]
            # (P.idx: Type)
            i = self._field_split(inner)
            if i:
                base, idx, ty = i
                r, p = self.parse_place(base)
                return r, p + [("field", idx, ty)]
        m = re.match(r"^(.*)\[(.*)\]$", s)
        if m:
            r, p = self.parse_place(m.group(1))
            return r, p + [("index", m.group(2))]
        raise Unsupported("place: " + s)

    @staticmethod
    def _balanced(s):
        d = 0
        for c in s:
            if c in "([":
                d += 1
            elif c in ")]":
                d -= 1
                if d < 0:
                    return False
        return d == 0

    def _field_split(self, inner):
        # find ".<digits>: " at depth 0
        depth = 0
        for m in re.finditer(r"[()\[\]]|\.(\d+): ", inner):
            t = m.group(0)
            if t in "([":
                depth += 1
            elif t in ")]":
                depth -= 1
            elif depth == 0:
                return inner[:m.start()], int(m.group(1)), inner[m.end():]
        return None

    def read_root(self, st, root):
        if root[0] == "local":
            fr = st.frames[root[1]]
            if root[2] not in fr:
                raise Unsupported("read of unset local %s" % (root,))
            return fr[root[2]]
        return st.heap[root[1]]

    def write_root(self, st, root, val):
        if root[0] == "local":
            st.frames[root[1]][root[2]] = val
        else:
            st.heap[root[1]] = val

    def resolve(self, st, fid, place):
        """resolve a place string to (root, path) following derefs"""
        if isinstance(place, str):
            local, projs = self.parse_place(place)
        else:
            local, projs = place
        root = ("local", fid, local)
        path = []
        for pr in projs:
            if pr[0] == "deref":
                v = self.get_path(st, self.read_root(st, root), path, st_root=root)
                if isinstance(v, Ref):
                    root, path = v.root, list(v.path)
                elif isinstance(v, Opaque):
                    # reference of unknown provenance: give it a heap cell lazily
                    cid = st.new_cell(self.fresh(st, deref_type(v.ty) if is_ref_type(v.ty) else "?", (v.k, "*")))
                    nv = Ref(("heap", cid), (), True)
                    self.set_at(st, root, path, nv)
                    root, path = nv.root, []
                else:
                    raise Unsupported("deref of %r" % (v,))
            elif pr[0] == "index":
                raise Unsupported("index projection " + str(pr))
            else:
                path.append(pr)
        return root, path

    def child(self, st, v, pr):
        """read one projection step of a value"""
        if pr[0] == "downcast":
            if isinstance(v, Agg):
                return v  # variant checked by the preceding switch
            if isinstance(v, Opaque):
                if pr in v.over:
                    return v.over[pr]
                return Opaque(v.ty, (v.k, "as", pr[1]))
            raise Unsupported("downcast of %r" % (v,))
        if pr[0] == "field":
            idx, ty = pr[1], pr[2]
            if isinstance(v, Agg):
                if idx < len(v.fields):
                    return v.fields[idx]
                raise Unsupported("field %d of %r" % (idx, v))
            if isinstance(v, Opaque):
                k = ("field", idx)
                if k in v.over:
                    return v.over[k]
                return self.fresh_nocell(st, ty, (v.k, idx))
            raise Unsupported("field of %r" % (v,))
        raise Unsupported("projection " + str(pr))

    def fresh_nocell(self, st, ty, key):
        # like fresh, but deterministic for reference-typed fields: the cell id is memoised by key
        ty = ty.strip()
        if is_ref_type(ty):
            ck = ("cell", str(key))
            if ck not in st.counters:
                inner = deref_type(ty)
                cid = st.new_cell(self.fresh(st, inner, (key, "*")))
                st.counters[ck] = cid
            return Ref(("heap", st.counters[ck]), (), "mut " in ty[:12])
        return self.fresh(st, ty, key)

    def get_path(self, st, v, path, st_root=None):
        for pr in path:
            v = self.child(st, v, pr)
        return v

    def set_child(self, st, v, pr, newv):
        if isinstance(v, Agg):
            if pr[0] == "downcast":
                return newv
            f = list(v.fields)
            while len(f) <= pr[1]:
                f.append(Opaque("?", ("pad", len(f))))
            f[pr[1]] = newv
            return Agg(v.ty, v.variant, f, v.names)
        if isinstance(v, Opaque):
            over = dict(v.over)
            over[("field", pr[1]) if pr[0] == "field" else pr] = newv
            return Opaque(v.ty, v.k, over)
        raise Unsupported("write into %r" % (v,))

    def set_at(self, st, root, path, newv):
        def rec(v, p):
            if not p:
                return newv
            c = self.child(st, v, p[0])
            return self.set_child(st, v, p[0], rec(c, p[1:]))
        if not path:
            self.write_root(st, root, newv)
            return
        if root[0] == "local" and root[2] not in st.frames[root[1]]:
            st.frames[root[1]][root[2]] = Opaque("?", ("uninit", root[2]))
        self.write_root(st, root, rec(self.read_root(st, root), list(path)))

    def read_place(self, st, fid, place):
        root, path = self.resolve(st, fid, place)
        return self.get_path(st, self.read_root(st, root), path)

    def write_place(self, st, fid, place, val):
        root, path = self.resolve(st, fid, place)
        self.set_at(st, root, path, val)

    def deref(self, st, v):
        if isinstance(v, Ref):
            return self.get_path(st, self.read_root(st, v.root), v.path)
        return v

    def deep_key(self, st, v, depth=0):
        """key of a value with references replaced by the key of what they point to"""
        if depth > 6:
            return "..."
        if isinstance(v, Ref):
            return "&" + self.deep_key(st, self.deref(st, v), depth + 1)
        if isinstance(v, Agg):
            return "%s:%s(%s)" % (v.ty, v.variant, ",".join(self.deep_key(st, f, depth + 1) for f in v.fields))
        if isinstance(v, Opaque) and v.over:
            return "opq:%s{%s}" % (kfmt(v.k), ",".join("%s=%s" % (kfmt(p), self.deep_key(st, x, depth + 1)) for p, x in sorted(v.over.items(), key=lambda x: str(x[0]))))
        if isinstance(v, (BV, BoolV)) and z3.is_const(v.term) and v.term.decl().kind() == z3.Z3_OP_UNINTERPRETED:
            o = self.origin.get(v.term.decl().name())
            if o is not None:
                return ("bv:" if isinstance(v, BV) else "b:") + o
        return vkey(v)

    # ---- operands / rvalues ----------------------------------------------------------------------
    def const(self, st, text, ty_hint=None):
        t = text.strip()
        if t in self.consts:
            return self.consts[t]
        if t == "true":
            return BoolV(z3.BoolVal(True))
        if t == "false":
            return BoolV(z3.BoolVal(False))
        if t == "()":
            return Unit()
        m = re.match(r"^(-?\d+)_(\w+)$", t)
        if m and m.group(2) in INT_TYPES:
            w, sg = INT_TYPES[m.group(2)]
            return BV(z3.BitVecVal(int(m.group(1)), w), sg)
        m = re.match(r"^'(.)'$", t)
        if m:
            return BV(z3.BitVecVal(ord(m.group(1)), 32), False)
        m = re.match(r"^'\\(.)'$", t)
        if m:
            ch = {"n": 10, "r": 13, "t": 9, "0": 0, "\\": 92, "'": 39}.get(m.group(1))
            if ch is not None:
                return BV(z3.BitVecVal(ch, 32), False)
        # enum unit variants as constants:  std::option::Option::<Infallible>::None
        sg = strip_generics(t)
        parts = sg.split("::")
        if len(parts) >= 2 and parts[-2] in self.enums and parts[-1] in self.enums[parts[-2]]:
            return Agg(parts[-2], parts[-1], [])
        for rx, fn in getattr(self, "const_hooks", []):
            if re.search(rx, t):
                v = fn(self, st, t)
                if v is not None:
                    return v
        return Const(t)

    def operand(self, st, fid, s):
        s = s.strip()
        if s.startswith("no_retag "):
            s = s[9:]
        if s.startswith("copy "):
            return self.read_place(st, fid, s[5:])
        if s.startswith("move "):
            return self.read_place(st, fid, s[5:])
        if s.startswith("const "):
            return self.const(st, s[6:])
        if re.match(r"^_\d+$", s):
            return self.read_place(st, fid, s)
        if re.match(r"^[A-Za-z_<][\w:<>, '&\[\]#{}@./-]*$", s):
            # a function item (zero-sized constant) handed to a higher-order function
            return Const("fn-item:" + s)
        raise Unsupported("operand: " + s)

    def binop(self, op, a, b):
        # an opaque named constant in arithmetic: a fixed but unknown number of the other operand's width
        if isinstance(a, Const) and isinstance(b, BV):
            a = BV(z3.BitVec(self.sym(("const", a.text)), b.term.size()), b.signed)
        elif isinstance(b, Const) and isinstance(a, BV):
            b = BV(z3.BitVec(self.sym(("const", b.text)), a.term.size()), a.signed)
        # a transparent integer newtype of unknown value (e.g. rowan::TextSize from an abstracted call) in arithmetic:
        # a fixed but unknown number of the other operand's width, named after the value's key
        if isinstance(a, Opaque) and isinstance(b, BV):
            a = BV(z3.BitVec(self.sym((a.k, "as_int")), b.term.size()), b.signed)
        if isinstance(b, Opaque) and isinstance(a, BV):
            b = BV(z3.BitVec(self.sym((b.k, "as_int")), a.term.size()), a.signed)
        if isinstance(a, BoolV) and isinstance(b, BoolV):
            if op == "Eq":
                return BoolV(a.term == b.term)
            if op == "Ne":
                return BoolV(a.term != b.term)
            if op == "BitAnd":
                return BoolV(z3.And(a.term, b.term))
            if op == "BitOr":
                return BoolV(z3.Or(a.term, b.term))
            if op == "BitXor":
                return BoolV(z3.Xor(a.term, b.term))
        if isinstance(a, BV) and isinstance(b, BV):
            x, y, sg = a.term, b.term, a.signed
            if x.size() != y.size():
                if op in ("Shl", "Shr"):
                    y = z3.ZeroExt(x.size() - y.size(), y) if y.size() < x.size() else z3.Extract(x.size() - 1, 0, y)
                else:
                    raise Unsupported("width mismatch in " + op)
            if op == "Eq":
                return BoolV(x == y)
            if op == "Ne":
                return BoolV(x != y)
            if op == "Lt":
                return BoolV(x < y if sg else z3.ULT(x, y))
            if op == "Le":
                return BoolV(x <= y if sg else z3.ULE(x, y))
            if op == "Gt":
                return BoolV(x > y if sg else z3.UGT(x, y))
            if op == "Ge":
                return BoolV(x >= y if sg else z3.UGE(x, y))
            if op in ("Add", "AddUnchecked"):
                return BV(x + y, sg)
            if op in ("Sub", "SubUnchecked"):
                return BV(x - y, sg)
            if op in ("Mul", "MulUnchecked"):
                return BV(x * y, sg)
            if op == "BitAnd":
                return BV(x & y, sg)
            if op == "BitOr":
                return BV(x | y, sg)
            if op == "BitXor":
                return BV(x ^ y, sg)
            if op == "Shl":
                return BV(x << y, sg)
            if op == "Shr":
                return BV((x >> y) if sg else z3.LShR(x, y), sg)
            if op == "Div":
                return BV((x / y) if sg else z3.UDiv(x, y), sg)
            if op == "Rem":
                return BV(z3.SRem(x, y) if sg else z3.URem(x, y), sg)
            if op in ("AddWithOverflow", "SubWithOverflow", "MulWithOverflow"):
                w = x.size()
                if op == "AddWithOverflow":
                    r = x + y
                    ov = z3.Not(z3.BVAddNoOverflow(x, y, sg)) if not sg else z3.Or(z3.Not(z3.BVAddNoOverflow(x, y, True)), z3.Not(z3.BVAddNoUnderflow(x, y)))
                elif op == "SubWithOverflow":
                    r = x - y
                    ov = z3.Not(z3.BVSubNoUnderflow(x, y, sg)) if not sg else z3.Or(z3.Not(z3.BVSubNoOverflow(x, y)), z3.Not(z3.BVSubNoUnderflow(x, y, True)))
                else:
                    r = x * y
                    ov = z3.Not(z3.BVMulNoOverflow(x, y, sg))
                return Agg("tuple", None, [BV(r, sg), BoolV(ov)])
            if op == "Cmp":
                lt = (x < y) if sg else z3.ULT(x, y)
                return BV(z3.If(lt, z3.BitVecVal(-1, 8), z3.If(x == y, z3.BitVecVal(0, 8), z3.BitVecVal(1, 8))), True)
        # equality on opaque things compared by key (sound only for identical keys => equal)
        if op in ("Eq", "Ne"):
            ka, kb = vkey(a), vkey(b)
            if ka == kb:
                return BoolV(z3.BoolVal(op == "Eq"))
            t = z3.Bool(self.sym(("eq", min(ka, kb), max(ka, kb))))
            return BoolV(t if op == "Eq" else z3.Not(t))
        raise Unsupported("binop %s on %r, %r" % (op, a, b))

    def discriminant(self, st, v):
        if isinstance(v, Agg):
            if v.variant is None:
                raise Unsupported("discriminant of struct " + repr(v))
            names = self.enums.get(v.ty)
            if not names or v.variant not in names:
                raise Unsupported("no variant table for enum %s (variant %s)" % (v.ty, v.variant))
            return BV(z3.BitVecVal(names.index(v.variant), USIZE), True)
        if isinstance(v, Opaque):
            if ("discr",) in v.over:
                return v.over[("discr",)]
            d = z3.BitVec(self.sym((v.k, "discr")), USIZE)
            names = self.enums.get(short_type(v.ty))
            if names:
                st.pc.append(z3.ULT(d, z3.BitVecVal(len(names), USIZE)))
            return BV(d, True)
        if isinstance(v, BV):   # C-like enum represented as its index
            t = v.term
            if t.size() < USIZE:
                t = z3.ZeroExt(USIZE - t.size(), t)
            return BV(t, True)
        raise Unsupported("discriminant of %r" % (v,))

    def rvalue(self, st, fid, rhs, dest_ty):
        rhs = rhs.strip()
        # references
        m = re.match(r"^&(mut |raw const |raw mut |fake shallow |fake )?(.*)$", rhs)
        if m and not rhs.startswith("&&"):
            root, path = self.resolve(st, fid, m.group(2))
            return Ref(root, path, (m.group(1) or "").strip() in ("mut", "raw mut"))
        if rhs.startswith("no_retag "):
            rhs = rhs[9:]
        if rhs.startswith(("copy ", "move ", "const ")):
            # cast?
            m = re.match(r"^(.*) as (.*) \((\w+)(\(.*\))?\)$", rhs)
            if m:
                return self.cast(st, self.operand(st, fid, m.group(1)), m.group(2), m.group(3))
            return self.operand(st, fid, rhs)
        m = re.match(r"^discriminant\((.*)\)$", rhs)
        if m:
            return self.discriminant(st, self.read_place(st, fid, m.group(1)))
        m = re.match(r"^(\w+)\((.*)\)$", rhs)
        if m and m.group(1) in ("Eq", "Ne", "Lt", "Le", "Gt", "Ge", "Add", "Sub", "Mul", "Div", "Rem", "BitAnd",
                                "BitOr", "BitXor", "Shl", "Shr", "AddWithOverflow", "SubWithOverflow",
                                "MulWithOverflow", "Cmp", "AddUnchecked", "SubUnchecked", "MulUnchecked", "Offset"):
            a, b = split_top(m.group(2))
            return self.binop(m.group(1), self.operand(st, fid, a), self.operand(st, fid, b))
        m = re.match(r"^Not\((.*)\)$", rhs)
        if m:
            v = self.operand(st, fid, m.group(1))
            if isinstance(v, BoolV):
                return BoolV(z3.Not(v.term))
            if isinstance(v, BV):
                return BV(~v.term, v.signed)
            raise Unsupported("Not of %r" % (v,))
        m = re.match(r"^Neg\((.*)\)$", rhs)
        if m:
            v = self.operand(st, fid, m.group(1))
            return BV(-v.term, v.signed)
        m = re.match(r"^(Len|PtrMetadata)\((.*)\)$", rhs)
        if m:
            v = self.operand(st, fid, m.group(2)) if m.group(2).startswith(("copy", "move")) else self.read_place(st, fid, m.group(2))
            return self.fresh(st, "usize", ("len", self.deep_key(st, v)))
        # tuple aggregate
        if rhs.startswith("(") and rhs.endswith(")") and self._balanced(rhs[1:-1]):
            items = split_top(rhs[1:-1])
            if all(i.startswith(("copy ", "move ", "const ")) for i in items):
                return Agg("tuple", None, [self.operand(st, fid, i) for i in items])
        # array aggregate
        if rhs.startswith("[") and rhs.endswith("]"):
            items = split_top(rhs[1:-1])
            if all(i.startswith(("copy ", "move ", "const ")) for i in items):
                return Agg("array", None, [self.operand(st, fid, i) for i in items])
        # struct aggregate with braces:  path { a: move _1, b: copy _2 }
        m = re.match(r"^([^{}]+?) \{ (.*) \}$", rhs) if not rhs.startswith("{") else None
        if m:
            name = self._enum_or_struct_name(m.group(1))
            fields, names = [], []
            for item in split_top(m.group(2)):
                fm = re.match(r"^(\w+): (.*)$", item)
                if not fm:
                    raise Unsupported("struct field: " + item)
                names.append(fm.group(1))
                fields.append(self.operand(st, fid, fm.group(2)))
            return Agg(name, self._variant_of(m.group(1)), fields, names)
        # enum variant / tuple struct aggregate:  path(args)   (no `->`: that would be a call terminator)
        if rhs.endswith(")") and not rhs.startswith(("{", "(", "[")):
            depth, j = 0, len(rhs) - 1
            while j >= 0:
                if rhs[j] == ")":
                    depth += 1
                elif rhs[j] == "(":
                    depth -= 1
                    if depth == 0:
                        break
                j -= 1
            head, inner = rhs[:j], rhs[j + 1:-1]
            if j > 0 and ("::" in head or re.match(r"^[A-Z]\w*(<.*>)?$", head)) and self._balanced(inner):
                items = split_top(inner) if inner.strip() else []
                if all(i.startswith(("copy ", "move ", "const ")) for i in items):
                    return Agg(self._enum_or_struct_name(head), self._variant_of(head),
                               [self.operand(st, fid, i) for i in items])
        # unit variant / unit struct:   path::Variant
        if re.match(r"^[\w:<>', &\[\]\(\)+.*#]+$", rhs) and "::" in rhs and not rhs.startswith(("copy", "move", "const")):
            sg = strip_generics(rhs).split("::")
            if len(sg) >= 2 and sg[-2] in self.enums and sg[-1] in self.enums[sg[-2]]:
                return Agg(sg[-2], sg[-1], [])
            return Agg(sg[-1], None, [])
        if rhs.startswith("{closure@") or rhs.startswith("{coroutine@") or rhs.startswith("{async"):
            m = re.match(r"^(\{[^}]*\})( \{ (.*) \})?$", rhs)
            ups, names = [], []
            if m and m.group(3):
                for item in split_top(m.group(3)):
                    fm = re.match(r"^(\w+): (.*)$", item)
                    names.append(fm.group(1) if fm else "?")
                    ups.append(self.operand(st, fid, fm.group(2)) if fm else self.operand(st, fid, item))
            return Agg("closure", m.group(1) if m else rhs, ups, names)
        raise Unsupported("rvalue: " + rhs)

    def _variant_of(self, path):
        sg = strip_generics(path).split("::")
        if len(sg) >= 2 and sg[-2] in self.enums and sg[-1] in self.enums[sg[-2]]:
            return sg[-1]
        return None

    def _enum_or_struct_name(self, path):
        sg = strip_generics(path).split("::")
        if len(sg) >= 2 and sg[-2] in self.enums and sg[-1] in self.enums[sg[-2]]:
            return sg[-2]
        return sg[-1]

    def cast(self, st, v, ty, kind):
        ty = ty.strip()
        if kind in ("IntToInt",) and ty in INT_TYPES:
            w, sg = INT_TYPES[ty]
            if isinstance(v, BoolV):
                return BV(z3.If(v.term, z3.BitVecVal(1, w), z3.BitVecVal(0, w)), sg)
            if isinstance(v, BV):
                t = v.term
                if t.size() == w:
                    return BV(t, sg)
                if t.size() > w:
                    return BV(z3.Extract(w - 1, 0, t), sg)
                return BV(z3.SignExt(w - t.size(), t) if v.signed else z3.ZeroExt(w - t.size(), t), sg)
        if kind in ("PointerCoercion", "Transmute", "PtrToPtr", "PointerExposeProvenance", "Subtype"):
            return v
        raise Unsupported("cast %s to %s (%s)" % (v, ty, kind))

    # ---- solver ----------------------------------------------------------------------------------
    def _lit(self, c):
        """assumption literal standing for constraint c (asserted once as lit => c in the shared solver)"""
        k = c.get_id()
        e = self._lits.get(k)
        if e is None:
            l = z3.Bool("pc!%d" % len(self._lits))
            self.solver.add(z3.Implies(l, c))
            e = (l, c)      # keep c alive so that its id stays unique
            self._lits[k] = e
        return e[0]

    def feasible(self, st, extra=None):
        import time
        lits = [self._lit(c) for c in st.pc if not z3.is_true(c)]
        if extra is not None:
            lits.append(self._lit(extra))
        t0 = time.time()
        r = self.solver.check(*lits)
        self.solver_time += time.time() - t0
        self.queries += 1
        return r != z3.unsat

    # ---- execution ---------------------------------------------------------------------------------
    def run(self, fn, args=None, st=None):
        """symbolically execute `fn` from its entry; returns list of Path"""
        st = st or State()
        self.paths = []
        # wall-clock budget of one symbolic run: exceeding it is an encoding gap (exit 2), never a verdict
        self.deadline = time.time() + float(os.environ.get("VERIF_SYMEX_BUDGET_S", "900"))
        fid = self.new_frame(st)
        for i, (local, ty) in enumerate(fn.args):
            if args and i < len(args) and args[i] is not None:
                st.frames[fid][local] = args[i]
            else:
                st.frames[fid][local] = self.fresh(st, ty, ("arg", i + 1))
        self.exec_block(fn, st, fid, "bb0", [], None)
        return self.paths

    def new_frame(self, st):
        fid = st.next_frame
        st.next_frame += 1
        st.frames[fid] = {}
        return fid

    def finish(self, st, ret, stack, kind="return", info=""):
        if stack:
            # return into the caller
            (cfn, cfid, dest, nxt), rest = stack[-1], stack[:-1]
            if kind != "return":
                self.paths.append(Path(st, None, kind, info))
                return
            self.write_place(st, cfid, dest, ret)
            self.exec_block(cfn, st, cfid, nxt, rest, None)
            return
        if len(self.paths) >= self.max_paths:
            raise Unsupported("path limit %d exceeded" % self.max_paths)
        self.paths.append(Path(st, ret, kind, info))

    def exec_block(self, fn, st, fid, bb, stack, _unused):
        while True:
            self.stats["blocks"] += 1
            if self.stats["blocks"] % 256 == 0 and time.time() > getattr(self, "deadline", float("inf")):
                raise Unsupported("symbolic execution of %s exceeded its time budget" % fn.name)
            vk = (fid, bb)
            st.visits[vk] = st.visits.get(vk, 0) + 1
            if st.visits[vk] > self.max_visits:
                self.finish(st, None, [], "cut", "loop bound %d reached at %s of %s" % (self.max_visits, bb, fn.name))
                return
            blk = fn.blocks[bb]
            for s in blk.stmts:
                self.exec_stmt(fn, st, fid, s)
            t = blk.term
            nxt = self.exec_term(fn, st, fid, t, stack)
            if nxt is None:
                return
            bb = nxt

    def exec_stmt(self, fn, st, fid, s):
        if s.startswith(("StorageLive", "StorageDead", "nop", "FakeRead", "PlaceMention", "AscribeUserType",
                         "Retag", "Coverage", "ConstEvalCounter", "BackwardIncompatibleDropHint", "Deinit")):
            return
        m = re.match(r"^(.*?) = (.*);$", s)
        if not m:
            raise Unsupported("statement: " + s)
        lhs, rhs = m.group(1), m.group(2)
        if lhs.startswith("discriminant("):
            # SetDiscriminant (coroutine state / enum construction in place)
            place = lhs[len("discriminant("):-1]
            root, path = self.resolve(st, fid, place)
            cur = self.get_path(st, self.read_root(st, root), path)
            val = self.const(st, rhs + "_isize") if re.match(r"^-?\d+$", rhs) else self.operand(st, fid, rhs)
            if isinstance(cur, Opaque):
                over = dict(cur.over)
                over[("discr",)] = val
                self.set_at(st, root, path, Opaque(cur.ty, cur.k, over))
                return
            raise Unsupported("SetDiscriminant on %r" % (cur,))
        local, _ = self.parse_place(lhs)
        v = self.rvalue(st, fid, rhs, fn.locals.get(local, "?"))
        if isinstance(v, Agg) and v.ty == "array":
            # array literals (e.g. the backing store of vec![..]) are recorded: their later travel
            # through Box / MaybeUninit plumbing is not tracked, their contents are
            st.trace.append(Event(callee="<array>", short="<array>", args=[v], akeys=[self.deep_key(st, v)], result=v, fn=fn.name))
        try:
            self.write_place(st, fid, lhs, v)
        except Unsupported:
            if not (isinstance(v, Agg) and v.ty == "array"):
                raise

    def targets(self, t):
        m = re.search(r"-> \[(.*)\];$", t)
        out = {}
        if m:
            for part in split_top(m.group(1)):
                k, _, v = part.partition(": ")
                out[k.strip()] = v.strip()
        else:
            m = re.search(r"-> (bb\d+);$", t)
            if m:
                out["goto"] = m.group(1)
        return out

    def exec_term(self, fn, st, fid, t, stack):
        if t.startswith("goto -> "):
            return t[8:-1]
        if t == "return;":
            self.finish(st, st.frames[fid].get("_0", Unit()), stack)
            return None
        if t in ("unreachable;",):
            # infeasible by construction; if the path condition is satisfiable the encoding lost precision
            if self.feasible(st):
                st.notes.append("reached `unreachable` in " + fn.name)
            return None
        if t.startswith("resume") or t.startswith("abort") or t.startswith("terminate"):
            return None
        if t.startswith("falseEdge") or t.startswith("falseUnwind"):
            tg = self.targets(t)
            return tg.get("real")
        m = re.match(r"^switchInt\((.*)\) -> \[(.*)\];$", t)
        if m:
            v = self.operand(st, fid, m.group(1))
            arms = []
            other = None
            for part in split_top(m.group(2)):
                k, _, bbn = part.partition(": ")
                if k.strip() == "otherwise":
                    other = bbn.strip()
                else:
                    arms.append((int(k.strip()), bbn.strip()))
            conds = []
            for val, bbn in arms:
                if isinstance(v, BoolV):
                    c = v.term if val != 0 else z3.Not(v.term)
                else:
                    c = v.term == z3.BitVecVal(val, v.term.size())
                conds.append((z3.simplify(c), bbn))
            if other:
                conds.append((z3.simplify(z3.And([z3.Not(c) for c, _ in conds])) if conds else z3.BoolVal(True), other))
            live = []
            for c, bbn in conds:
                if z3.is_false(c):
                    continue
                if z3.is_true(c) or self.feasible(st, c):
                    live.append((c, bbn))
            if not live:
                return None
            self.stats["forks"] += len(live) - 1
            for c, bbn in live[1:]:
                s2 = st.fork()
                if not z3.is_true(c):
                    s2.pc.append(c)
                self.exec_block(fn, s2, fid, bbn, stack, None)
            c, bbn = live[0]
            if not z3.is_true(c):
                st.pc.append(c)
            return bbn
        m = re.match(r"^assert\((.*?), \"(.*)$", t)
        if m:
            cond_s = m.group(1)
            neg = cond_s.startswith("!")
            v = self.operand(st, fid, cond_s[1:] if neg else cond_s)
            c = z3.Not(v.term) if neg else v.term
            tg = self.targets(t)
            msg = m.group(2).split('"')[0]
            if self.check_overflow and self.feasible(st, z3.Not(c)):
                s2 = st.fork()
                s2.pc.append(z3.Not(c))
                self.paths.append(Path(s2, None, "panic", "assert failed: %s in %s" % (msg, fn.name)))
            st.pc.append(c)
            return tg.get("success")
        m = re.match(r"^drop\((.*)\) -> ", t)
        if m:
            tg = self.targets(t)
            return tg.get("return")
        m = re.match(r"^(.*?) = yield\((.*)\) -> \[resume: (bb\d+), drop: (bb\d+)\];$", t)
        if m:
            st.trace.append(Event(callee="<yield>", args=[], fn=fn.name))
            self.write_place(st, fid, m.group(1), self.fresh(st, fn.locals.get(self.parse_place(m.group(1))[0], "?"), ("resume", st.count("yield"))))
            return m.group(3)
        # call:  dest = callee(args) -> [return: bb, unwind ...];
        i = t.rfind(") -> ")
        eq = t.find(" = ")
        if i > 0 and eq > 0:
            depth, j = 0, i
            while j > eq:
                if t[j] == ")":
                    depth += 1
                elif t[j] == "(":
                    depth -= 1
                    if depth == 0:
                        break
                j -= 1
            if j > eq:
                return self.exec_call(fn, st, fid, t[:eq], t[eq + 3:j], t[j + 1:i], t, stack)
        raise Unsupported("terminator: " + t)

    # ---- calls -----------------------------------------------------------------------------------
    def exec_call(self, fn, st, fid, dest, callee, argstr, t, stack):
        self.stats["calls"] += 1
        tg = self.targets(t)
        ret_bb = tg.get("return")
        args_s = split_top(argstr) if argstr.strip() else []
        args = [self.operand(st, fid, a) for a in args_s]
        dlocal, dproj = self.parse_place(dest)
        dest_ty = fn.locals.get(dlocal, "?")
        if dproj:
            lastf = [p for p in dproj if p[0] == "field"]
            dest_ty = lastf[-1][2] if lastf and dproj[-1][0] == "field" else "?"
        cname = callee.strip()
        # the same trait is printed with or without its path depending on the imports of the calling module
        cshort = re.sub(r"\b(?:std|core)::ops::(Index|IndexMut|Deref|DerefMut)\b", r"\1", cname)
        outcome = None
        handled = False
        for rx, h in self.models:
            if re.search(rx, cname) or (cshort != cname and re.search(rx, cshort)):
                outcome = h(self, st, cname, args, dest_ty, fn)
                if outcome is not NotImplemented:
                    handled = True
                    break
        if not handled and ret_bb is not None:
            ho = self.higher_order(fn, st, fid, dest, cname, args, ret_bb, stack)
            if ho:
                return None
        if not handled:
            outcome = self.builtin(st, cname, args, dest_ty)
            handled = outcome is not NotImplemented
        if not handled:
            for rx, tgt in self.redirect:
                # static dispatch of a trait call to a known implementation (generic MIR, concrete receiver)
                if re.search(rx, cname) and ret_bb is not None and len(stack) < self.max_depth:
                    self.stats["inlined"] += 1
                    nfid = self.new_frame(st)
                    for (local, ty), a in zip(tgt.args, args):
                        st.frames[nfid][local] = a
                    self.exec_block(tgt, st, nfid, "bb0", stack + [(fn, fid, dest, ret_bb)], None)
                    return None
            for rx in self.inline:
                if re.search(rx, cname):
                    target = self.lookup_fn(cname)
                    if target is not None and len(stack) < self.max_depth:
                        self.stats["inlined"] += 1
                        nfid = self.new_frame(st)
                        for (local, ty), a in zip(target.args, args):
                            st.frames[nfid][local] = a
                        if ret_bb is None:
                            raise Unsupported("inlined diverging call " + cname)
                        self.exec_block(target, st, nfid, "bb0", stack + [(fn, fid, dest, ret_bb)], None)
                        return None
        if not handled:
            outcome = self.default_call(st, cname, args, dest_ty, fn)
        if type(outcome).__name__ in ("_Panic", "_PanicVal"):
            # a modelled operation whose Rust counterpart panics on this path
            self.paths.append(Path(st, None, "panic", "%s in %s" % (cname, fn.name)))
            return None
        if ret_bb is None:
            # diverging call (panic, process::exit, ...)
            self.paths.append(Path(st, None, "diverge", cname))
            return None
        if isinstance(outcome, list):
            # forking outcomes: [(Val, constraint or None)]
            live = [(v, c) for v, c in outcome if c is None or self.feasible(st, c)]
            for v, c in live[1:]:
                s2 = st.fork()
                if c is not None:
                    s2.pc.append(c)
                self.write_place(s2, fid, dest, v)
                self.exec_block(fn, s2, fid, ret_bb, stack, None)
            if not live:
                return None
            v, c = live[0]
            if c is not None:
                st.pc.append(c)
            self.write_place(st, fid, dest, v)
            return ret_bb
        self.write_place(st, fid, dest, outcome)
        return ret_bb

    # ---- closures ---------------------------------------------------------------------------------
    def closure_fn(self, v):
        """MIR body of a closure value (aggregate or zero-sized constant), if it is in the dump"""
        text = v.variant if isinstance(v, Agg) and v.ty == "closure" else (v.text if isinstance(v, Const) else None)
        if not text:
            return None
        m = re.search(r"\{closure@[^}]*\}", text)
        if not m:
            return None
        cid = m.group(0)
        for f in self.fns.values():
            if f.args and cid in f.args[0][1] and "{closure#" in f.name:
                return f
        return None

    def call_closure(self, fn, st, fid, dest, clo, cargs, ret_bb, stack, wrap=None):
        """inline closure `clo` applied to cargs; its result is written to dest, then ret_bb continues"""
        target = self.closure_fn(clo)
        if target is None or len(stack) >= self.max_depth:
            return False
        self.stats["inlined"] += 1
        nfid = self.new_frame(st)
        first_ty = target.args[0][1]
        if is_ref_type(first_ty):
            cell = st.new_cell(clo)
            st.frames[nfid][target.args[0][0]] = Ref(("heap", cell), (), "mut " in first_ty[:12])
        else:
            st.frames[nfid][target.args[0][0]] = clo
        rest = target.args[1:]
        if len(rest) == 1 and len(cargs) != 1:
            st.frames[nfid][rest[0][0]] = Agg("tuple", None, list(cargs))
        else:
            for (local, ty), a in zip(rest, cargs):
                st.frames[nfid][local] = a
        self.exec_block(target, st, nfid, "bb0", stack + [(fn, fid, dest, ret_bb)], None)
        return True

    def higher_order(self, fn, st, fid, dest, cname, args, ret_bb, stack):
        """std combinators whose closure argument is executed from its own MIR"""
        m = re.search(r"Option::<.*>::(is_some_and|is_none_or)::<", cname)
        if m and len(args) == 2 and self.closure_fn(args[1]) is not None:
            opt, clo = args
            none_val = BoolV(z3.BoolVal(m.group(1) == "is_none_or"))
            if isinstance(opt, Agg):
                if opt.variant == "None":
                    self.write_place(st, fid, dest, none_val)
                    self.exec_block(fn, st, fid, ret_bb, stack, None)
                    return True
                return self.call_closure(fn, st, fid, dest, clo, [opt.fields[0]], ret_bb, stack)
            d = self.discriminant(st, opt)
            c_none = d.term == z3.BitVecVal(0, USIZE)
            c_some = d.term == z3.BitVecVal(1, USIZE)
            did = False
            if self.feasible(st, c_none):
                s2 = st.fork()
                s2.pc.append(c_none)
                self.write_place(s2, fid, dest, none_val)
                self.exec_block(fn, s2, fid, ret_bb, stack, None)
                did = True
            if self.feasible(st, c_some):
                st.pc.append(c_some)
                payload = LazyPayload(self, st, opt, "Some")[0]
                if not self.call_closure(fn, st, fid, dest, clo, [payload], ret_bb, stack):
                    raise Unsupported("closure body of %s not found" % cname)
                did = True
            return True if did else False
        return False

    def lookup_fn(self, cname):
        if cname in self.fns:
            return self.fns[cname]
        sc = strip_generics(cname)
        cands = [f for n, f in self.fns.items() if strip_generics(n) == sc]
        if len(cands) == 1:
            return cands[0]
        # methods are printed as  path::<impl at file:line>::name  in headers and Type::name at call sites
        last = sc.split("::")[-1]
        tyname = sc.split("::")[-2] if "::" in sc else None
        cands = [f for n, f in self.fns.items() if strip_generics(n).split("::")[-1] == last]
        if tyname:
            c2 = [f for f in cands if f.args and short_type(f.args[0][1]) == tyname]
            if len(c2) == 1:
                return c2[0]
        if len(cands) == 1:
            return cands[0]
        return None

    def builtin(self, st, cname, args, dest_ty):
        sc = strip_generics(cname)
        if re.search(r"as Try>::branch$", cname):
            v = args[0]
            ty = short_type(re.match(r"^<(.*) as Try>", cname).group(1))
            if ty == "Option":
                return self._match_enum(st, v, "Option", {
                    "Some": lambda p: Agg("ControlFlow", "Continue", [p[0]]),
                    "None": lambda p: Agg("ControlFlow", "Break", [Agg("Option", "None", [])])})
            if ty == "Result":
                return self._match_enum(st, v, "Result", {
                    "Ok": lambda p: Agg("ControlFlow", "Continue", [p[0]]),
                    "Err": lambda p: Agg("ControlFlow", "Break", [Agg("Result", "Err", [p[0]])])})
        if re.search(r"as FromResidual<.*>>::from_residual$", cname):
            ty = short_type(re.match(r"^<(.*?) as FromResidual", cname).group(1))
            if ty == "Option":
                return Agg("Option", "None", [])
            if ty == "Result":
                r = args[0]
                if isinstance(r, Agg) and r.variant == "Err":
                    return Agg("Result", "Err", [Opaque("?", ("from", vkey(r.fields[0])))])
                return Agg("Result", "Err", [Opaque("?", ("from", vkey(r)))])
        if re.search(r"as (Into|From)<.*>>::(into|from)$", cname) or re.search(r"as IntoFuture>::into_future$", cname):
            a, b = re.match(r"^<(.*) as (?:Into|From|IntoFuture)", cname).group(1), dest_ty
            return args[0]
        if re.search(r"as Deref(Mut)?>::deref(_mut)?$", cname):
            return self._deref_model(st, args[0], dest_ty)
        if re.search(r"as (Borrow|AsRef)<.*>>::(borrow|as_ref)$", cname):
            return args[0]
        if re.search(r"as Clone>::clone$", cname):
            return self.deref(st, args[0])
        if re.search(r"Pin::<.*>::new_unchecked$|Pin::<.*>::new$|^std::mem::drop|^drop::<", cname):
            return args[0] if "Pin" in cname else Unit()
        if re.search(r"^(std|core)::future::get_context", cname) or re.search(r"get_context::<", cname):
            return Opaque("Context", ("context",))
        if re.search(r"as Future>::poll$", cname):
            fut = self.deref(st, args[0])
            key = ("await", self.deep_key(st, fut))
            inner = generic_args(dest_ty)
            res = self.fresh(st, inner[0] if inner else "?", key)
            st.trace.append(Event(callee="<await>", args=[self.deep_key(st, fut)], fn=""))
            return Agg("Poll", "Ready", [res])
        m = re.match(r"^(?:std::option::|core::option::)?Option::<.*>::(unwrap|expect|unwrap_unchecked)$", cname)
        if m:
            v = args[0]
            if isinstance(v, Agg) and v.ty == "Option":
                if v.variant == "Some":
                    return v.fields[0]
                return _PanicVal()
            if isinstance(v, Opaque):
                # the non-panicking continuation: the value is Some
                d = self.discriminant(st, v)
                st.pc.append(d.term == z3.BitVecVal(1, USIZE))
                return LazyPayload(self, st, v, "Some")[0]
        m = re.match(r"^(?:std::result::|core::result::)?Result::<.*>::(unwrap|expect)$", cname)
        if m:
            v = args[0]
            if isinstance(v, Agg) and v.ty == "Result":
                if v.variant == "Ok":
                    return v.fields[0] if v.fields else Unit()
                return _PanicVal()
            if isinstance(v, Opaque):
                d = self.discriminant(st, v)
                st.pc.append(d.term == z3.BitVecVal(0, USIZE))
                return LazyPayload(self, st, v, "Ok")[0]
        m = re.match(r"^(?:std::option::|core::option::)?Option::<.*>::(is_some|is_none)$", cname)
        if m:
            v = self.deref(st, args[0])
            d = self.discriminant(st, v)
            one = z3.BitVecVal(1, USIZE)
            return BoolV(d.term == one if m.group(1) == "is_some" else d.term != one)
        m = re.match(r"^(?:std::result::|core::result::)?Result::<.*>::(is_ok|is_err)$", cname)
        if m:
            v = self.deref(st, args[0])
            d = self.discriminant(st, v)
            zero = z3.BitVecVal(0, USIZE)
            return BoolV(d.term == zero if m.group(1) == "is_ok" else d.term != zero)
        return NotImplemented

    def _deref_model(self, st, a, dest_ty):
        # Arc<T>/Box<T>/String/Vec deref: an observer keyed by the container's value
        v = self.deref(st, a)
        inner = deref_type(dest_ty)
        cid_key = ("cell", "deref:" + self.deep_key(st, v))
        if cid_key not in st.counters:
            st.counters[cid_key] = st.new_cell(self.fresh(st, inner, ("deref", self.deep_key(st, v))))
        return Ref(("heap", st.counters[cid_key]), (), "mut " in dest_ty[:12])

    def _match_enum(self, st, v, ename, arms):
        """fork on the variant of an enum value; arms: variant -> fn(payload list) -> Val"""
        names = self.enums[ename]
        if isinstance(v, Agg) and v.variant in arms:
            return arms[v.variant](v.fields)
        d = self.discriminant(st, v)
        outs = []
        for i, n in enumerate(names):
            if n not in arms:
                continue
            payload = LazyPayload(self, st, v, n)
            outs.append((arms[n](payload), d.term == z3.BitVecVal(i, USIZE)))
        return outs

    def default_call(self, st, cname, args, dest_ty, fn):
        """unknown callee: deterministic observer when it cannot mutate, else event + havoc"""
        sc = strip_generics(cname)
        has_mut = any(isinstance(a, Ref) and a.mutable for a in args)
        pure = (not has_mut or any(re.search(rx, cname) for rx in self.pure)) and not any(re.search(rx, cname) for rx in self.impure)
        akeys = [self.deep_key(st, a) for a in args]
        if pure:
            key = ("call", sc, tuple(akeys))
        else:
            key = ("call", sc, tuple(akeys), st.count("call:" + sc))
        res = self.fresh(st, dest_ty, key) if dest_ty not in ("?",) else Opaque("?", key)
        st.trace.append(Event(callee=cname, short=sc, args=args, akeys=akeys, result=res, pure=pure, fn=fn.name))
        if not pure:
            for a in args:
                if isinstance(a, Ref) and a.mutable:
                    old = self.deref(st, a)
                    ty = old.ty if isinstance(old, (Opaque,)) else "?"
                    if isinstance(old, (BV, BoolV)):
                        continue  # scalars behind &mut are havoced too
                    self.set_at(st, a.root, list(a.path), Opaque(ty, ("havoc", sc, st.count("havoc"), self.deep_key(st, old))))
        return res


class _PanicVal(Val):
    def key(self):
        return "panic"


class LazyPayload:
    """payload of variant `name` of enum value v, fields created on demand"""

    def __init__(self, ex, st, v, name):
        self.ex, self.st, self.v, self.name = ex, st, v, name

    def __getitem__(self, i):
        v = self.v
        if isinstance(v, Agg):
            return v.fields[i]
        tys = generic_args(v.ty) if isinstance(v, Opaque) else []
        ety = short_type(v.ty) if isinstance(v, Opaque) else ""
        fty = "?"
        if ety == "Option" and tys:
            fty = tys[0]
        elif ety == "Result" and len(tys) == 2:
            fty = tys[0] if self.name == "Ok" else tys[1]
        elif ety == "ControlFlow" and len(tys) >= 1:
            fty = tys[0] if self.name == "Break" else (tys[1] if len(tys) > 1 else "()")
        elif ety == "Poll" and tys:
            fty = tys[0]
        dc = self.ex.child(self.st, v, ("downcast", self.name))
        return self.ex.child(self.st, dc, ("field", i, fty))
