"""Produce rustc MIR text for a crate of /repo's *current working tree* (nightly toolchain).

cargo fingerprints the sources: an unchanged tree costs seconds, an edited one a recompile of
the edited crate.  -Zunpretty=mir prints nothing when rustc is not re-run, so the crate's lib.rs
mtime is bumped?  No — we never touch /repo; instead the dump is keyed by a hash of the crate's
sources and regenerated (by removing cargo's fingerprint for that crate) when the hash changes.
"""
import hashlib
import os
import shutil
import subprocess
import time

BUILD = os.path.join(os.environ.get("VERIF_ROOT", "/verif"), ".build")
TARGET = os.path.join(BUILD, "mir-target")
OUT = os.path.join(BUILD, "mir")


def src_hash(crate_dir):
    h = hashlib.sha256()
    for root, dirs, files in os.walk(crate_dir):
        dirs.sort()
        if "target" in dirs:
            dirs.remove("target")
        for f in sorted(files):
            if f.endswith((".rs", ".toml", ".yml", ".yaml", ".json", ".lua")):
                p = os.path.join(root, f)
                h.update(p.encode())
                with open(p, "rb") as fh:
                    h.update(fh.read())
    return h.hexdigest()


def deps_of(crate):
    # workspace crates whose sources influence the MIR of `crate` only through types; MIR of `crate`
    # itself is regenerated from its own sources, dependencies are rebuilt by cargo when they change.
    return []


def dump(crate, extra_flags=None, tag="", timeout=3600):
    """returns (path_to_mir_text, seconds, regenerated?)"""
    os.makedirs(OUT, exist_ok=True)
    crate_dir = os.path.join("/repo/crates", crate)
    hh = hashlib.sha256()
    # a change in any workspace crate can change types seen by this crate: hash them all (cheap)
    for c in sorted(os.listdir("/repo/crates")):
        hh.update(src_hash(os.path.join("/repo/crates", c)).encode())
    hh.update(open("/repo/Cargo.lock", "rb").read())
    hh.update(" ".join(extra_flags or []).encode())
    key = hh.hexdigest()[:16]
    mir = os.path.join(OUT, "%s%s.mir" % (crate, tag))
    stamp = mir + ".key"
    if os.path.exists(mir) and os.path.exists(stamp) and open(stamp).read() == key and os.path.getsize(mir) > 0:
        return mir, 0.0, False
    # force rustc to re-run for this crate: drop its fingerprint dir in our private target dir
    fp = os.path.join(TARGET, "debug", ".fingerprint")
    if os.path.isdir(fp):
        for d in os.listdir(fp):
            if d.startswith(crate.replace("-", "_") + "-") or d.startswith(crate + "-"):
                shutil.rmtree(os.path.join(fp, d), ignore_errors=True)
    env = dict(os.environ)
    env["CARGO_TARGET_DIR"] = TARGET
    env["CARGO_NET_OFFLINE"] = "true"
    env.pop("RUSTFLAGS", None)
    flags = ["-Zunpretty=mir", "-C", "debug-assertions=off", "-C", "overflow-checks=on"] + (extra_flags or [])
    cmd = ["cargo", "+nightly", "rustc", "-p", crate, "--lib", "--offline", "--"] + flags
    t0 = time.time()
    tmp = mir + ".tmp"
    with open(tmp, "w") as out, open(mir + ".err", "w") as err:
        p = subprocess.run(cmd, cwd="/repo", stdout=out, stderr=err, env=env, timeout=timeout)
    dt = time.time() - t0
    if p.returncode != 0 or os.path.getsize(tmp) == 0:
        raise RuntimeError("MIR dump of %s failed (rc=%d): %s" % (crate, p.returncode, open(mir + ".err").read()[-1500:]))
    os.replace(tmp, mir)
    with open(stamp, "w") as f:
        f.write(key)
    return mir, dt, True
