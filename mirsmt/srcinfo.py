"""Small facts read from /repo's Rust sources: field order of structs, variant order of enums.
(MIR refers to fields and variants by index.)"""
import os
import re


def _strip_comments(s):
    s = re.sub(r"//[^\n]*", "", s)
    s = re.sub(r"/\*.*?\*/", "", s, flags=re.S)
    return s


def _body(src, kind, name):
    m = re.search(r"\b%s\s+%s\b[^{;]*\{" % (kind, re.escape(name)), src)
    if not m:
        return None
    i = m.end()
    depth = 1
    j = i
    while j < len(src) and depth:
        if src[j] == "{":
            depth += 1
        elif src[j] == "}":
            depth -= 1
        j += 1
    return src[i:j - 1]


def _split_items(body):
    items, depth, cur = [], 0, []
    for c in body:
        if c in "([{<":
            depth += 1
        elif c in ")]}>":
            depth -= 1
        if c == "," and depth == 0:
            items.append("".join(cur).strip())
            cur = []
        else:
            cur.append(c)
    last = "".join(cur).strip()
    if last:
        items.append(last)
    return items


def struct_fields(path, name):
    src = _strip_comments(open(path).read())
    b = _body(src, "struct", name)
    if b is None:
        raise KeyError("struct %s not found in %s" % (name, path))
    out = []
    for it in _split_items(b):
        it = re.sub(r"#\[[^\]]*\]", "", it).strip()
        m = re.match(r"^(?:pub(?:\([^)]*\))?\s+)?(\w+)\s*:", it)
        if m:
            out.append(m.group(1))
    return out


def enum_variants(path, name):
    src = _strip_comments(open(path).read())
    b = _body(src, "enum", name)
    if b is None:
        raise KeyError("enum %s not found in %s" % (name, path))
    out = []
    for it in _split_items(b):
        it = re.sub(r"#\[[^\]]*\]", "", it).strip()
        m = re.match(r"^(\w+)", it)
        if m:
            out.append(m.group(1))
    return out


def find_def(crate_dir, kind, name):
    for root, _, files in os.walk(crate_dir):
        for f in files:
            if f.endswith(".rs"):
                p = os.path.join(root, f)
                try:
                    s = open(p).read()
                except Exception:
                    continue
                if re.search(r"\b%s\s+%s\b" % (kind, re.escape(name)), s):
                    return p
    return None
