"""Exact models of Vec / slice / iterator operations for engine M.

A vector is a VecV with a concrete Python list of (possibly symbolic) elements: structure is
concrete on every path, contents are symbolic.  Every operation that can panic in Rust (index,
drain, insert out of range) records a proof obligation judged under the path condition at that
point; on a path where the obligation fails the run is reported, not continued.
"""
import re
import z3

import symex
from symex import Agg, BV, BoolV, Opaque, Ref, Unit, Val, Unsupported, USIZE


class VecV(Val):
    def __init__(self, items):
        self.items = list(items)

    def key(self):
        return "vec[" + ",".join(symex.vkey(i) for i in self.items) + "]"

    def __repr__(self):
        return "Vec%r" % (self.items,)


class IterV(Val):
    """by-reference iterator over a vector place: yields refs to elements"""

    def __init__(self, ref, order):
        self.ref = ref
        self.order = list(order)     # remaining indices, in yield order

    def key(self):
        return "iter:%s:%s" % (symex.vkey(self.ref), self.order)


class DrainV(Val):
    def __init__(self, items):
        self.items = list(items)

    def key(self):
        return "drain[" + ",".join(symex.vkey(i) for i in self.items) + "]"


def conc(v):
    """concrete integer value of a BV, or None"""
    if isinstance(v, BV):
        t = z3.simplify(v.term)
        if z3.is_bv_value(t):
            return t.as_long()
    return None


def usize(n):
    return BV(z3.BitVecVal(n, USIZE))


def install(ex):
    # element projection on VecV
    orig_child = ex.child
    orig_set_child = ex.set_child

    def child(st, v, pr):
        if pr[0] == "elem":
            if isinstance(v, VecV):
                return v.items[pr[1]]
            raise Unsupported("element of %r" % (v,))
        return orig_child(st, v, pr)

    def set_child(st, v, pr, newv):
        if pr[0] == "elem":
            if isinstance(v, VecV):
                items = list(v.items)
                items[pr[1]] = newv
                return VecV(items)
            raise Unsupported("element write into %r" % (v,))
        return orig_set_child(st, v, pr, newv)

    ex.child = child
    ex.set_child = set_child

    def ob(st, what, ok, fn):
        st.obligations.append((what, z3.BoolVal(bool(ok)) if isinstance(ok, bool) else ok, fn.name, len(st.pc)))

    def vec_at(st, a):
        """(root, path, VecV) for an argument that is a (ref to a) vector / slice view"""
        if isinstance(a, Ref):
            v = ex.deref(st, a)
            if isinstance(v, Ref):       # & &Vec
                return vec_at(st, v)
            if isinstance(v, VecV):
                return a.root, list(a.path), v
            if isinstance(v, Opaque) and not v.over:
                # a vector never written before (e.g. field of a Default-constructed struct): empty is NOT assumed
                raise Unsupported("vector of unknown contents: %r" % (v,))
        if isinstance(a, VecV):
            return None, None, a
        raise Unsupported("not a vector: %r" % (a,))

    def m_new(ex_, st, cname, args, dest_ty, fn):
        return VecV([])

    def m_push(ex_, st, cname, args, dest_ty, fn):
        root, path, v = vec_at(st, args[0])
        ex_.set_at(st, root, path, VecV(v.items + [args[1]]))
        return Unit()

    def m_pop(ex_, st, cname, args, dest_ty, fn):
        root, path, v = vec_at(st, args[0])
        if not v.items:
            return Agg("Option", "None", [])
        ex_.set_at(st, root, path, VecV(v.items[:-1]))
        return Agg("Option", "Some", [v.items[-1]])

    def m_len(ex_, st, cname, args, dest_ty, fn):
        _, _, v = vec_at(st, args[0])
        return usize(len(v.items))

    def m_is_empty(ex_, st, cname, args, dest_ty, fn):
        _, _, v = vec_at(st, args[0])
        return BoolV(z3.BoolVal(len(v.items) == 0))

    def m_index(ex_, st, cname, args, dest_ty, fn):
        root, path, v = vec_at(st, args[0])
        i = conc(args[1])
        if i is None:
            raise Unsupported("symbolic vector index in " + fn.name)
        ob(st, "index %d < len %d" % (i, len(v.items)), i < len(v.items), fn)
        if i >= len(v.items):
            return PANIC
        return Ref(root, path + [("elem", i)], "IndexMut" in cname)

    def m_get(ex_, st, cname, args, dest_ty, fn):
        root, path, v = vec_at(st, args[0])
        i = conc(args[1])
        if i is None:
            raise Unsupported("symbolic slice::get index in " + fn.name)
        if i < len(v.items):
            return Agg("Option", "Some", [Ref(root, path + [("elem", i)], False)])
        return Agg("Option", "None", [])

    def m_first(ex_, st, cname, args, dest_ty, fn):
        root, path, v = vec_at(st, args[0])
        if v.items:
            return Agg("Option", "Some", [Ref(root, path + [("elem", 0)], False)])
        return Agg("Option", "None", [])

    def m_last(ex_, st, cname, args, dest_ty, fn):
        root, path, v = vec_at(st, args[0])
        if v.items:
            return Agg("Option", "Some", [Ref(root, path + [("elem", len(v.items) - 1)], False)])
        return Agg("Option", "None", [])

    def m_deref(ex_, st, cname, args, dest_ty, fn):
        a = args[0]
        root, path, v = vec_at(st, a)
        return Ref(root, path, "mut " in dest_ty[:12]) if root is not None else a

    def m_iter(ex_, st, cname, args, dest_ty, fn):
        root, path, v = vec_at(st, args[0])
        return IterV(Ref(root, path, False), range(len(v.items)))

    def m_rev(ex_, st, cname, args, dest_ty, fn):
        it = args[0]
        if isinstance(it, IterV):
            return IterV(it.ref, list(reversed(it.order)))
        if isinstance(it, DrainV):
            return DrainV(list(reversed(it.items)))
        return NotImplemented

    def m_into_iter(ex_, st, cname, args, dest_ty, fn):
        a = args[0]
        if isinstance(a, (IterV, DrainV)):
            return a
        if isinstance(a, Agg) and a.ty in ("Range", "RangeInclusive"):
            return a
        if isinstance(a, VecV):
            return DrainV(a.items)
        if isinstance(a, Ref):
            try:
                root, path, v = vec_at(st, a)
                return IterV(Ref(root, path, False), range(len(v.items)))
            except Unsupported:
                return NotImplemented
        return NotImplemented

    def m_next(ex_, st, cname, args, dest_ty, fn):
        r = args[0]
        it = ex_.deref(st, r)
        if isinstance(it, IterV):
            if not it.order:
                return Agg("Option", "None", [])
            i = it.order[0]
            ex_.set_at(st, r.root, list(r.path), IterV(it.ref, it.order[1:]))
            return Agg("Option", "Some", [Ref(it.ref.root, list(it.ref.path) + [("elem", i)], False)])
        if isinstance(it, DrainV):
            if not it.items:
                return Agg("Option", "None", [])
            ex_.set_at(st, r.root, list(r.path), DrainV(it.items[1:]))
            return Agg("Option", "Some", [it.items[0]])
        return NotImplemented

    def m_range_incl(ex_, st, cname, args, dest_ty, fn):
        return Agg("RangeInclusive", None, [args[0], args[1]])

    def m_drain(ex_, st, cname, args, dest_ty, fn):
        root, path, v = vec_at(st, args[0])
        rng = args[1]
        n = len(v.items)
        if "RangeFull" in cname:
            ex_.set_at(st, root, path, VecV([]))
            return DrainV(v.items)
        if not isinstance(rng, Agg):
            raise Unsupported("drain range %r" % (rng,))
        if "RangeFrom" in cname:
            a = conc(rng.fields[0])
            b = n
        elif "RangeInclusive" in cname:
            a = conc(rng.fields[0])
            e = conc(rng.fields[1])
            b = None if e is None else e + 1
        elif "RangeTo" in cname:
            a, b = 0, conc(rng.fields[0])
        else:
            a, b = conc(rng.fields[0]), conc(rng.fields[1])
        if a is None or b is None:
            raise Unsupported("symbolic drain range in " + fn.name)
        ob(st, "drain(%d..%d) within len %d" % (a, b, n), a <= b <= n, fn)
        if not (a <= b <= n):
            return PANIC
        ex_.set_at(st, root, path, VecV(v.items[:a] + v.items[b:]))
        return DrainV(v.items[a:b])

    def m_collect(ex_, st, cname, args, dest_ty, fn):
        a = args[0]
        if isinstance(a, DrainV):
            return VecV(a.items)
        if isinstance(a, IterV):
            return NotImplemented
        return NotImplemented

    def m_insert(ex_, st, cname, args, dest_ty, fn):
        root, path, v = vec_at(st, args[0])
        i = conc(args[1])
        if i is None:
            raise Unsupported("symbolic insert index in " + fn.name)
        ob(st, "insert(%d) <= len %d" % (i, len(v.items)), i <= len(v.items), fn)
        if i > len(v.items):
            return PANIC
        ex_.set_at(st, root, path, VecV(v.items[:i] + [args[2]] + v.items[i:]))
        return Unit()

    def m_replace(ex_, st, cname, args, dest_ty, fn):
        r = args[0]
        old = ex_.deref(st, r)
        ex_.set_at(st, r.root, list(r.path), args[1])
        return old

    def m_clone_vec(ex_, st, cname, args, dest_ty, fn):
        _, _, v = vec_at(st, args[0])
        return VecV(v.items)

    def m_truncate(ex_, st, cname, args, dest_ty, fn):
        root, path, v = vec_at(st, args[0])
        k = conc(args[1])
        if k is None:
            raise Unsupported("symbolic truncate")
        ex_.set_at(st, root, path, VecV(v.items[:k]))
        return Unit()

    def m_clear(ex_, st, cname, args, dest_ty, fn):
        root, path, v = vec_at(st, args[0])
        ex_.set_at(st, root, path, VecV([]))
        return Unit()

    def range_items(r, inclusive):
        a, b = conc(r.fields[0]), conc(r.fields[1])
        if a is None or b is None:
            raise Unsupported("symbolic range bounds")
        return [usize(i) for i in range(a, b + 1 if inclusive else b)]

    def m_range_next(ex_, st, cname, args, dest_ty, fn):
        r = args[0]
        it = ex_.deref(st, r)
        if isinstance(it, Agg) and it.ty in ("Range", "RangeInclusive"):
            it = DrainV(range_items(it, it.ty == "RangeInclusive"))
        if isinstance(it, DrainV):
            if not it.items:
                ex_.set_at(st, r.root, list(r.path), it)
                return Agg("Option", "None", [])
            ex_.set_at(st, r.root, list(r.path), DrainV(it.items[1:]))
            return Agg("Option", "Some", [it.items[0]])
        return NotImplemented

    def m_range_rev(ex_, st, cname, args, dest_ty, fn):
        it = args[0]
        if isinstance(it, Agg) and it.ty in ("Range", "RangeInclusive"):
            return DrainV(list(reversed(range_items(it, it.ty == "RangeInclusive"))))
        if isinstance(it, DrainV):
            return DrainV(list(reversed(it.items)))
        return NotImplemented

    def m_skip(ex_, st, cname, args, dest_ty, fn):
        it, k = args[0], conc(args[1])
        if k is None:
            raise Unsupported("symbolic skip count")
        if isinstance(it, IterV):
            return IterV(it.ref, it.order[k:])
        if isinstance(it, DrainV):
            return DrainV(it.items[k:])
        return NotImplemented

    def m_slice_to(ex_, st, cname, args, dest_ty, fn):
        root, path, v = vec_at(st, args[0])
        rng = args[1]
        n = len(v.items)
        if "RangeTo<" in cname:
            a, b = 0, conc(rng.fields[0])
        elif "RangeFrom<" in cname:
            a, b = conc(rng.fields[0]), n
        else:
            a, b = conc(rng.fields[0]), conc(rng.fields[1])
        if a is None or b is None:
            raise Unsupported("symbolic slice range")
        ob(st, "slice [%d..%d] within len %d" % (a, b, n), a <= b <= n, fn)
        if not (a <= b <= n):
            return PANIC
        cid = st.new_cell(VecV(v.items[a:b]))
        return Ref(("heap", cid), (), False)

    def m_cmp_refs(ex_, st, cname, args, dest_ty, fn):
        a, b = args[0], args[1]
        for _ in range(3):
            a, b = ex_.deref(st, a), ex_.deref(st, b)
        if isinstance(a, BV) and isinstance(b, BV):
            op = {"lt": "Lt", "le": "Le", "gt": "Gt", "ge": "Ge", "eq": "Eq", "ne": "Ne"}[cname.rsplit("::", 1)[1]]
            return ex_.binop(op, a, b)
        return NotImplemented

    ex.models += [
        (r"^Vec::<.*>::clear$", m_clear),
        (r"^<(Rev<)?std::ops::Range(Inclusive)?<usize>>? as Iterator>::next$", m_range_next),
        (r"^<std::ops::Range(Inclusive)?<usize> as Iterator>::rev$", m_range_rev),
        (r"as Iterator>::skip$", m_skip),
        (r"^<\[.*\] as Index<Range(To|From)?<usize>>>::index$|^<Vec<.*> as Index<Range(To|From)?<usize>>>::index$", m_slice_to),
        (r"^<&(mut )?(usize|u32|isize|i32) as Partial(Ord|Eq)>::(lt|le|gt|ge|eq|ne)$", m_cmp_refs),
        (r"^Vec::<.*>::new$|^<Vec<.*> as Default>::default$|^Vec::<.*>::with_capacity$", m_new),
        (r"^Vec::<.*>::push$", m_push),
        (r"^Vec::<.*>::pop$", m_pop),
        (r"^Vec::<.*>::len$|^core::slice::<impl \[.*\]>::len$", m_len),
        (r"^Vec::<.*>::is_empty$|^core::slice::<impl \[.*\]>::is_empty$", m_is_empty),
        (r"^<Vec<.*> as Index(Mut)?<usize>>::index(_mut)?$|^<\[.*\] as Index(Mut)?<usize>>::index(_mut)?$", m_index),
        (r"^core::slice::<impl \[.*\]>::get::<usize>$", m_get),
        (r"^core::slice::<impl \[.*\]>::first$", m_first),
        (r"^core::slice::<impl \[.*\]>::last$", m_last),
        (r"^<Vec<.*> as Deref(Mut)?>::deref(_mut)?$", m_deref),
        (r"^core::slice::<impl \[.*\]>::iter$", m_iter),
        (r"as Iterator>::rev$", m_rev),
        (r"as IntoIterator>::into_iter$", m_into_iter),
        (r"as Iterator>::next$", m_next),
        (r"^std::ops::RangeInclusive::<usize>::new$", m_range_incl),
        (r"^Vec::<.*>::drain::<", m_drain),
        (r"as Iterator>::collect::<Vec<", m_collect),
        (r"^Vec::<.*>::insert$", m_insert),
        (r"^std::mem::replace::<", m_replace),
        (r"^<Vec<.*> as Clone>::clone$", m_clone_vec),
        (r"^Vec::<.*>::truncate$", m_truncate),
    ]


class _Panic(Val):
    def key(self):
        return "panic"


PANIC = _Panic()
