//! Verification shim for rust-i18n: translation is the identity, locale is fixed "en".
use std::borrow::Cow;

pub fn set_locale(_locale: &str) {}
pub fn locale() -> &'static str { "en" }

#[doc(hidden)]
pub fn __shim_subst(msg: &'static str, _keys: &[&str], _vals: &[&dyn core::any::Any]) -> Cow<'static, str> {
    Cow::Borrowed(msg)
}

#[macro_export]
macro_rules! i18n {
    ($($all:tt)*) => {
        #[allow(dead_code)]
        pub fn _rust_i18n_available_locales() -> Vec<&'static str> { vec!["en"] }
    };
}

#[macro_export]
macro_rules! t {
    ($msg:expr $(,)?) => {{
        ::std::borrow::Cow::<'static, str>::Borrowed($msg)
    }};
    ($msg:expr, $($k:ident = $v:expr),+ $(,)?) => {{
        $( let _ = &$v; )+
        ::std::borrow::Cow::<'static, str>::Borrowed($msg)
    }};
}

#[macro_export]
macro_rules! available_locales {
    () => { crate::_rust_i18n_available_locales() };
}
