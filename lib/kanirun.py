"""Engine K: build and run Kani proof harnesses over /repo's current working tree.

One `cargo kani` invocation per (crate, tier): single compile of the harness crate, all
selected harnesses checked by CBMC in parallel (-j), structured results via --export-json.
Unwinding assertions stay on.  Counterexamples are replayed natively with
`cargo kani playback` before anything is reported.
"""
import json
import os
import re
import shutil
import subprocess
import time

VERIF = os.environ.get("VERIF_ROOT", "/verif")
BUILD = os.path.join(VERIF, ".build")
KANI_TRIPLE_DIR = "kani/x86_64-unknown-linux-gnu/debug/build"

# Loops of core::str::count::do_count_chars (the >= 32-byte word-at-a-time path of
# `str::chars().count()`).  Under the text bounds used here they are unreachable; unwinding them
# to the harness bound anyway is what makes `get_line_col` cost tens of minutes.  They are
# unwound once and Kani's unwinding assertions *prove* they are not reached (a reachable loop
# would fail its unwinding assertion and the run would be reported inconclusive, never pass).
DEFAULT_UNWIND1 = [r"core3str5count14do_count_chars"]


class KaniError(Exception):
    pass


def _env():
    e = dict(os.environ)
    e["CARGO_NET_OFFLINE"] = "true"
    e.pop("RUSTFLAGS", None)
    e.pop("RUSTUP_TOOLCHAIN", None)
    return e


def target_dir(family):
    return os.path.join(BUILD, "kani-" + family)


def prepare_crate(crate_dir, gen_rs, playback_rs=None):
    os.makedirs(os.path.join(crate_dir, "src"), exist_ok=True)
    _write_if_changed(os.path.join(crate_dir, "src", "gen.rs"), gen_rs)
    _write_if_changed(
        os.path.join(crate_dir, "src", "playback.rs"),
        playback_rs if playback_rs is not None else "// no concrete playback test recorded\n",
    )
    lock_src = "/repo/Cargo.lock"
    lock_dst = os.path.join(crate_dir, "Cargo.lock")
    if not os.path.exists(lock_dst):
        shutil.copy(lock_src, lock_dst)


def _write_if_changed(path, text):
    try:
        if open(path).read() == text:
            return
    except FileNotFoundError:
        pass
    with open(path, "w") as f:
        f.write(text)


def clean_old_outputs(family, crate_name):
    d = os.path.join(target_dir(family), KANI_TRIPLE_DIR, crate_name)
    if os.path.isdir(d):
        shutil.rmtree(d, ignore_errors=True)


def _run(cmd, cwd, log_path, timeout, mem_gb=None, env=None):
    pre = ""
    if mem_gb:
        pre = "ulimit -v %d; " % int(mem_gb * 1024 * 1024)
    full = pre + "exec " + " ".join(_q(c) for c in cmd)
    t0 = time.time()
    with open(log_path, "w") as log:
        p = subprocess.Popen(
            ["bash", "-c", full], cwd=cwd, stdout=log, stderr=subprocess.STDOUT, env=env or _env(),
            start_new_session=True,
        )
        try:
            rc = p.wait(timeout=timeout)
            timed_out = False
        except subprocess.TimeoutExpired:
            timed_out = True
            try:
                os.killpg(p.pid, 9)
            except ProcessLookupError:
                pass
            p.wait()
            rc = -9
    return rc, timed_out, time.time() - t0


def _q(s):
    if re.match(r"^[A-Za-z0-9_@%+=:,./-]+$", s):
        return s
    return "'" + s.replace("'", "'\\''") + "'"


def codegen(crate_dir, family, log_path, stubbing=False, timeout=1200):
    """Compile the harness crate (all harnesses) without verifying; returns metadata list."""
    cmd = ["cargo", "kani", "--target-dir", target_dir(family), "--only-codegen"]
    if stubbing:
        cmd += ["-Z", "stubbing"]
    rc, to, dt = _run(cmd, crate_dir, log_path, timeout)
    if to:
        raise KaniError("kani codegen timed out after %ds (log %s)" % (timeout, log_path))
    if rc != 0:
        raise KaniError("kani codegen failed rc=%d (log %s)\n%s" % (rc, log_path, _tail(log_path)))
    return dt


def _tail(path, n=40):
    try:
        lines = open(path, errors="replace").read().splitlines()
        return "\n".join(lines[-n:])
    except Exception:
        return ""


def find_metadata(family, crate_name):
    d = os.path.join(target_dir(family), KANI_TRIPLE_DIR, crate_name)
    metas = []
    if os.path.isdir(d):
        for h in os.listdir(d):
            out = os.path.join(d, h, "out")
            if not os.path.isdir(out):
                continue
            for f in os.listdir(out):
                if f.endswith(".kani-metadata.json"):
                    p = os.path.join(out, f)
                    metas.append((os.path.getmtime(p), p))
    metas.sort()
    return [p for _, p in metas]


def loop_ids(goto_file):
    """All CBMC loop identifiers of a goto binary."""
    out = subprocess.run(["cbmc", "--show-loops", goto_file], capture_output=True, text=True, timeout=300)
    ids = []
    for line in out.stdout.splitlines():
        m = re.match(r"^Loop (\S+):$", line)
        if m:
            ids.append(m.group(1))
    return ids


def compute_unwindset(family, crate_name, patterns, per_loop=None):
    """Resolve loop-name patterns to the mangled loop ids present in the compiled harnesses.
    patterns: regexes unwound once;  per_loop: {regex: n} for explicit other bounds."""
    metas = find_metadata(family, crate_name)
    if not metas:
        return ""
    meta = json.load(open(metas[-1]))
    seen = {}
    # loop ids of std functions are identical across harnesses of one crate; generic
    # instantiations carry the crate hash, so look at every harness' goto file (cheap).
    gotos = []
    for h in meta.get("proof_harnesses", []):
        g = h["goto_file"]
        g2 = g[: -len(".symtab.out")] + ".out" if g.endswith(".symtab.out") else g
        gotos.append(g2 if os.path.exists(g2) else g)
    # Looking at every goto file costs ~0.5 s each; sample at most 6 spread over the list.
    step = max(1, len(gotos) // 6)
    for g in gotos[::step][:8]:
        try:
            for lid in loop_ids(g):
                for pat in patterns:
                    if re.search(pat, lid):
                        seen[lid] = 1
                for pat, n in (per_loop or {}).items():
                    if re.search(pat, lid):
                        seen[lid] = n
        except Exception:
            continue
    return ",".join("%s:%d" % (k, v) for k, v in sorted(seen.items()))


def verify(crate_dir, family, crate_name, harness_filters, log_path, json_path, jobs=8,
           harness_timeout=600, overall_timeout=3000, mem_gb=12, unwindset="", stubbing=False,
           exact=False):
    """Run the selected harnesses.  Returns (results_by_harness, meta)."""
    if os.path.exists(json_path):
        os.remove(json_path)
    cmd = ["cargo", "kani", "--target-dir", target_dir(family), "-j", str(jobs),
           "--output-format", "terse", "-Z", "unstable-options",
           "--harness-timeout", "%ds" % harness_timeout, "--export-json", json_path]
    if stubbing:
        cmd += ["-Z", "stubbing"]
    if exact:
        cmd += ["--exact"]
    for h in harness_filters:
        cmd += ["--harness", h]
    if unwindset:
        cmd += ["--cbmc-args", "--unwindset", unwindset]
    rc, timed_out, dt = _run(cmd, crate_dir, log_path, overall_timeout, mem_gb=mem_gb)
    res = {}
    meta = {"rc": rc, "timed_out": timed_out, "wall_s": dt, "cmd": " ".join(cmd)}
    if not os.path.exists(json_path):
        meta["error"] = "no JSON results (rc=%s timed_out=%s)\n%s" % (rc, timed_out, _tail(log_path))
        return res, meta
    data = json.load(open(json_path))
    stats = {c["harness_id"]: c.get("cbmc_stats", {}) for c in data.get("cbmc", [])}
    props = {c["harness_id"]: c.get("property_details", {}) for c in data.get("property_details", [])}
    errs = {c["harness_id"]: c for c in data.get("error_details", [])}
    for r in data.get("verification_results", {}).get("results", []):
        hid = r["harness_id"]
        name = hid.split("::")[-1]
        failed = []
        undetermined = []
        cover_sat = 0
        cover_unsat = 0
        for c in r.get("checks", []):
            st = c.get("status", "")
            cat = c.get("category", "")
            if cat == "cover":
                if st.lower() in ("satisfied", "covered"):
                    cover_sat += 1
                elif st.lower() in ("unsatisfiable", "uncovered"):
                    cover_unsat += 1
                continue
            if st == "Failure":
                failed.append({"description": c.get("description", "").strip('"'), "function": c.get("function", ""),
                               "location": c.get("location", {}), "category": cat})
            elif st in ("Undetermined", "SolverError"):
                undetermined.append({"description": c.get("description", ""), "status": st})
        pd = props.get(hid, {})
        res[name] = {
            "harness_id": hid,
            "status": r.get("status"),
            "duration_s": r.get("duration_ms", 0) / 1000.0,
            "failed": failed,
            "undetermined": undetermined,
            "n_checks": pd.get("total_properties", len(r.get("checks", []))),
            "cover_satisfied": pd.get("satisfied", cover_sat),
            "cover_unsatisfiable": pd.get("unsatisfiable", cover_unsat),
            "n_undetermined": pd.get("undetermined", 0) + pd.get("solver_error", 0),
            "solver_s": stats.get(hid, {}).get("runtime_solver_s", 0.0),
            "symex_s": stats.get(hid, {}).get("runtime_symex_s", 0.0),
            "vccs": stats.get(hid, {}).get("vccs_remaining", 0),
            "error": errs.get(hid, {}),
        }
    meta["summary"] = data.get("verification_results", {}).get("summary", {})
    meta["tools"] = data.get("tools", {})
    return res, meta


def classify(r):
    """Map one harness result to pass / fail / inconclusive(+reason)."""
    if r is None:
        return "inconclusive", "harness produced no result (time-out, out-of-memory or crash)"
    unwind_fail = [f for f in r["failed"] if "unwinding assertion" in f["description"]]
    real_fail = [f for f in r["failed"] if "unwinding assertion" not in f["description"]]
    if r["status"] == "Success":
        if r["cover_satisfied"] < 1 or r["cover_unsatisfiable"] > 0:
            return "inconclusive", "vacuous: reachability witness not satisfied"
        if r["n_undetermined"] > 0:
            return "inconclusive", "undetermined checks"
        return "pass", ""
    if real_fail:
        return "fail", "; ".join(sorted({f["description"] for f in real_fail}))
    if unwind_fail:
        return "inconclusive", "unwinding bound too small: " + "; ".join(sorted({f["function"] for f in unwind_fail}))
    et = r.get("error", {}).get("error_type") or r.get("error", {}).get("exit_status") or r["status"]
    return "inconclusive", "no verdict: %s" % et


# ----------------------------------------------------------------------------------------
# replay


def playback_tests(crate_dir, family, harness, log_path, stubbing=False, unwindset="", timeout=1800,
                   mem_gb=14):
    """Ask Kani for concrete playback unit tests of one failing harness."""
    cmd = ["cargo", "kani", "--target-dir", target_dir(family), "-Z", "concrete-playback",
           "--concrete-playback=print", "--harness", harness, "--exact"]
    if stubbing:
        cmd += ["-Z", "stubbing"]
    if unwindset:
        cmd += ["-Z", "unstable-options", "--cbmc-args", "--unwindset", unwindset]
    rc, to, dt = _run(cmd, crate_dir, log_path, timeout, mem_gb=mem_gb)
    text = open(log_path, errors="replace").read()
    tests = []
    for m in re.finditer(r"Concrete playback unit test for `([^`]+)`:\n```\n(.*?)\n```", text, re.S):
        body = m.group(2)
        chk = re.search(r"/// Check for `(\w+)`: \"?\"?(.*?)\"?\"?\n", body)
        fn = re.search(r"fn (kani_concrete_playback_\w+)\(", body)
        vals = re.findall(r"vec!\[([0-9, ]*)\],", body)
        tests.append({
            "harness": m.group(1),
            "check_kind": chk.group(1) if chk else "",
            "check": chk.group(2) if chk else "",
            "fn": fn.group(1) if fn else "",
            "values": [[int(x) for x in v.split(",") if x.strip()] for v in vals],
            "source": body,
        })
    return tests


def run_playback(crate_dir, family, tests, log_path, use_mod="r#gen", release=False, timeout=1800):
    """Execute playback tests natively (cfg(kani) build of the harness crate, real /repo code).
    Returns {fn_name: 'failed'|'ok'}"""
    src = "// generated by the runner: concrete counterexamples replayed natively\n"
    src += "use super::%s::*;\n" % use_mod
    for t in tests:
        src += t["source"] + "\n"
    _write_if_changed(os.path.join(crate_dir, "src", "playback.rs"), src)
    env = _env()
    env["CARGO_TARGET_DIR"] = target_dir(family) + "-pb"
    cmd = ["cargo", "kani", "playback", "-Z", "concrete-playback"]
    if release:
        cmd += ["--release"]
    cmd += ["--", "kani_concrete_playback"]
    rc, to, dt = _run(cmd, crate_dir, log_path, timeout, env=env)
    text = open(log_path, errors="replace").read()
    out = {}
    for t in tests:
        m = re.search(r"test \S*%s \.\.\. (\w+)" % re.escape(t["fn"]), text)
        out[t["fn"]] = {"FAILED": "failed", "ok": "ok"}.get(m.group(1), "unknown") if m else "unknown"
    return out
