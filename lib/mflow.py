"""Engine M flow: MIR dump of /repo's current tree -> symbolic execution -> SMT obligations,
cross-checked by a second solver; counterexamples replayed natively by the replay crate."""
import json
import os
import re
import subprocess
import sys
import time

import z3

sys.path.insert(0, os.path.join(os.environ.get("VERIF_ROOT", "/verif"), "mirsmt"))
sys.setrecursionlimit(200000)

import mirdump  # noqa: E402
import mirparse  # noqa: E402
import symex  # noqa: E402
from core import Obligation, match_known  # noqa: E402

VERIF = os.environ.get("VERIF_ROOT", "/verif")


class KeyB:
    """builds the same value keys the executor derives, so that specs can name observations:
    KeyB.arg(1).field(4).deref().field(1)  ==  key of `&(*self.config).workspace_disabled`"""

    def __init__(self, k):
        self.k = k

    @staticmethod
    def arg(n):
        return KeyB((("arg", n), "*"))

    @staticmethod
    def argval(n):
        return KeyB(("arg", n))

    def field(self, i):
        return KeyB((self.k, i))

    def deref(self):
        return KeyB(("deref", "opq:" + symex.kfmt(self.k)))

    def opq(self):
        return "opq:" + symex.kfmt(self.k)

    def ref(self):
        return "&opq:" + symex.kfmt(self.k)

    def call(self, short, *akeys):
        return KeyB(("call", short, tuple(akeys)))


class MContext:
    def __init__(self, out):
        self.out = out
        self.mir_time = 0.0
        self.solver_time = 0.0
        self.queries = 0
        self.cross = {"agree": 0, "skipped": 0, "disagree": 0}
        self.parsed = {}
        self.cross_budget = 60      # unsat queries re-decided by the second solver (every sat one always is)

    def mir(self, crate, extra_flags=None, tag=""):
        path, dt, regen = mirdump.dump(crate, extra_flags, tag)
        self.mir_time += dt
        self.out.extra_cov.setdefault("mir_dumps", []).append(
            {"crate": crate, "seconds": round(dt, 1), "regenerated": regen, "bytes": os.path.getsize(path)})
        return path

    def fns(self, crate, want, extra_flags=None, tag=""):
        path = self.mir(crate, extra_flags, tag)
        k = (path, want)
        if k not in self.parsed:
            self.parsed[k] = mirparse.parse_file(path, want)
        return self.parsed[k]

    def check(self, constraints, name="q"):
        """sat-check a list of z3 constraints with z3, cross-check with cvc5.
        returns ('unsat'|'sat'|'unknown', model-or-None)"""
        s = z3.Solver()
        s.set("timeout", 60000)
        for c in constraints:
            s.add(c)
        t0 = time.time()
        r = s.check()
        self.solver_time += time.time() - t0
        self.queries += 1
        res = "sat" if r == z3.sat else ("unsat" if r == z3.unsat else "unknown")
        model = s.model() if r == z3.sat else None
        # cross-check (every sat verdict; unsat verdicts until the budget is used up)
        if res == "unsat":
            if self.cross_budget <= 0:
                self.cross["not_rechecked"] = self.cross.get("not_rechecked", 0) + 1
                return res, model
            self.cross_budget -= 1
        try:
            smt = "(set-logic ALL)\n" + s.to_smt2()
            p = subprocess.run(["cvc5", "--lang", "smt2", "--tlimit=60000"], input=smt, capture_output=True, text=True, timeout=90)
            o = p.stdout.strip().splitlines()
            if "(error" in p.stdout or "(error" in p.stderr or not o:
                self.cross["skipped"] += 1
            elif o[0] in ("sat", "unsat"):
                if o[0] == res:
                    self.cross["agree"] += 1
                else:
                    self.cross["disagree"] += 1
                    return "unknown", None
            else:
                self.cross["skipped"] += 1
        except Exception:
            self.cross["skipped"] += 1
        return res, model

    def implied_eq(self, path, term, val, width=64):
        """is `term == val` implied by the path condition?  (auxiliary query: one incremental z3
        solver per path, not a property verdict, so it is not sent to the second solver)"""
        s = getattr(path, "_solver", None)
        if s is None:
            s = z3.Solver()
            for c in path.pc:
                s.add(c)
            path._solver = s
        s.push()
        s.add(term != z3.BitVecVal(val, width))
        t0 = time.time()
        r = s.check()
        self.solver_time += time.time() - t0
        self.aux_queries = getattr(self, "aux_queries", 0) + 1
        s.pop()
        return r == z3.unsat

    def finish(self):
        self.out.extra_cov["solver_cross_check"] = dict(self.cross, second_solver="cvc5 1.0 on the SMT-LIB2 dump of every z3 query")
        self.out.extra_cov["mir_dump_s"] = round(self.mir_time, 1)
        self.out.extra_cov["z3_queries"] = self.queries
        self.out.extra_cov["z3_auxiliary_queries"] = getattr(self, "aux_queries", 0)
        self.out.extra_cov["z3_time_s"] = round(self.solver_time, 2)
        if self.cross["disagree"]:
            self.out.fatal = "z3 and cvc5 disagree on %d queries" % self.cross["disagree"]


def find_event(path, short_re, arg_pred=None):
    r = re.compile(short_re)
    for e in path.trace:
        if r.search(e.get("short", e["callee"])):
            if arg_pred is None or arg_pred(e):
                return e
    return None


def term_of(v):
    if isinstance(v, (symex.BoolV, symex.BV)):
        return v.term
    return None


def write_replay(out, name, record):
    rdir = os.path.join(VERIF, "replays", out.prop)
    os.makedirs(rdir, exist_ok=True)
    p = os.path.join(rdir, name + ".m.json")
    with open(p, "w") as f:
        json.dump(record, f, indent=1)
    return p


# ---- native replay crate ---------------------------------------------------------------------

def native_replay(scenario, timeout=3600):
    """build (incrementally) and run /verif/replay's `vreplay` on a scenario dict; returns its JSON output"""
    env = dict(os.environ)
    env["CARGO_TARGET_DIR"] = os.path.join(VERIF, ".build", "native")
    env["CARGO_NET_OFFLINE"] = "true"
    env.pop("RUSTFLAGS", None)
    lock = os.path.join(VERIF, "replay", "Cargo.lock")
    if not os.path.exists(lock):
        import shutil
        shutil.copy("/repo/Cargo.lock", lock)
    logdir = os.path.join(VERIF, ".build", "logs")
    os.makedirs(logdir, exist_ok=True)
    with open(os.path.join(logdir, "vreplay.build.log"), "w") as log:
        b = subprocess.run(["cargo", "build", "--offline", "--release", "--bin", "vreplay"], cwd=os.path.join(VERIF, "replay"),
                           env=env, stdout=log, stderr=subprocess.STDOUT, timeout=timeout)
    if b.returncode != 0:
        return {"error": "replay crate did not build (see .build/logs/vreplay.build.log)"}
    exe = os.path.join(env["CARGO_TARGET_DIR"], "release", "vreplay")
    p = subprocess.run([exe], input=json.dumps(scenario), capture_output=True, text=True, timeout=600)
    try:
        return json.loads(p.stdout.strip().splitlines()[-1])
    except Exception:
        return {"error": "vreplay produced no JSON", "stdout": p.stdout[-800:], "stderr": p.stderr[-800:], "rc": p.returncode}


def replay_file(path):
    """`check <ID> --replay <file>`: re-run a recorded counterexample scenario against the real code"""
    rec = json.load(open(path))
    sc = rec.get("scenario", {})
    kind = sc.get("kind", "")
    sys.path.insert(0, os.path.join(VERIF, "props"))
    if kind == "lsp_session":
        import c24
        import lspdrive
        exe = c24.build_ls()
        res = lspdrive.run_session(exe, c24.SESSION, c24.IDS, timeout=15)
        counts = {str(i): len(res["responses"].get(str(i), [])) for i in c24.IDS}
        for name, fn in (("cancel_during_init", lspdrive.session_cancel_during_init), ("cancel_in_flight", lspdrive.session_cancel_in_flight),
                         ("bad_initialize", lambda e: {k: v for k, v in lspdrive.session_bad_initialize(e).items() if k != "alive"}),
                         ("after_shutdown", lspdrive.session_after_shutdown), ("before_initialized", lspdrive.session_before_initialized),
                         ("shutdown_while_loading", lspdrive.session_shutdown_while_loading)):
            for i, c in fn(exe).items():
                counts["%s:%s" % (name, i)] = c
        bad = {i: c for i, c in counts.items() if c != 1 and not i.endswith("setup_failed")}
        print(json.dumps({"responses_per_id": counts, "violates": bool(bad)}))
        return 1 if bad else 0
    if kind == "emmylua_check_battery":
        import c36
        exe = c36.build_check_bin()
        res = c36.battery(exe)
        print(json.dumps([(r[0], r[2], r[3]) for r in res]))
        return 1 if any(r[2] for r in res) else 0
    if kind == "config_merge":
        import c32
        return c32.replay_scenario(sc)
    if kind == "config_load":
        import c31
        return c31.replay_scenario(sc)
    res = native_replay(sc)
    print(json.dumps(res)[:3000])
    exp = rec.get("expect")
    if exp and "code" in exp:
        reported = any(d["code"] == exp["code"] for d in res.get("diagnostics", []))
        return 1 if reported == exp.get("reported") else 0
    return 1 if rec.get("violates") else 0
