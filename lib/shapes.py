"""Byte-width shapes of texts: every sequence over the given widths up to k characters."""
import itertools


def shapes(max_chars, widths=(1, 2, 3, 4), min_chars=0):
    out = []
    for k in range(min_chars, max_chars + 1):
        for s in itertools.product(widths, repeat=k):
            out.append(tuple(s))
    return out


def name(shape):
    return "s" + ("".join(str(w) for w in shape) if shape else "e")


def byte_len(shape):
    return sum(shape)


def rust_array(shape):
    return "[" + ",".join(str(w) for w in shape) + "]"
