"""Drive the real emmylua_ls binary over stdio with a JSON-RPC message script; collect responses."""
import json
import os
import select
import subprocess
import tempfile
import time


def frame(obj):
    b = json.dumps(obj).encode()
    return b"Content-Length: %d\r\n\r\n" % len(b) + b


def run_session(exe, messages, wait_ids, timeout=20.0, settle=1.0):
    """messages: list of JSON-RPC objects sent in order (initialize/initialized are prepended).
    Returns {"responses": {id: [response objects]}, "alive": bool, "all": [...]}"""
    d = tempfile.mkdtemp(prefix="vlsp_")
    with open(os.path.join(d, "a.lua"), "w") as f:
        f.write("local a = 1\nprint(a)\n")
    root_uri = "file://" + d
    init = {"jsonrpc": "2.0", "id": 0, "method": "initialize",
            "params": {"processId": None, "rootUri": root_uri, "capabilities": {}, "workspaceFolders": [{"uri": root_uri, "name": "w"}]}}
    p = subprocess.Popen([exe], stdin=subprocess.PIPE, stdout=subprocess.PIPE, stderr=subprocess.DEVNULL, cwd=d)
    buf = b""
    got = []

    def pump(deadline, until=None):
        nonlocal buf
        while time.time() < deadline:
            r, _, _ = select.select([p.stdout], [], [], 0.1)
            if r:
                chunk = os.read(p.stdout.fileno(), 65536)
                if not chunk:
                    return
                buf += chunk
                while True:
                    i = buf.find(b"\r\n\r\n")
                    if i < 0:
                        break
                    head = buf[:i].decode(errors="replace")
                    n = 0
                    for line in head.split("\r\n"):
                        if line.lower().startswith("content-length:"):
                            n = int(line.split(":")[1])
                    if len(buf) < i + 4 + n:
                        break
                    body = buf[i + 4:i + 4 + n]
                    buf = buf[i + 4 + n:]
                    try:
                        got.append(json.loads(body))
                    except Exception:
                        pass
            if until and until():
                return

    def responded(i):
        return any(m.get("id") == i and ("result" in m or "error" in m) for m in got)

    try:
        p.stdin.write(frame(init))
        p.stdin.flush()
        pump(time.time() + timeout, lambda: responded(0))
        p.stdin.write(frame({"jsonrpc": "2.0", "method": "initialized", "params": {}}))
        p.stdin.flush()
        pump(time.time() + settle)
        for m in messages:
            p.stdin.write(frame(m))
            p.stdin.flush()
            # answer server->client requests (e.g. workspace/configuration) so the server is not blocked
            pump(time.time() + 0.2)
            for g in list(got):
                if "method" in g and "id" in g and not g.get("_answered"):
                    g["_answered"] = True
                    p.stdin.write(frame({"jsonrpc": "2.0", "id": g["id"], "result": None}))
                    p.stdin.flush()
        pump(time.time() + timeout, lambda: all(responded(i) for i in wait_ids))
        pump(time.time() + settle)
    except BrokenPipeError:
        pass
    alive = p.poll() is None
    try:
        p.kill()
    except Exception:
        pass
    res = {}
    for m in got:
        if "id" in m and ("result" in m or "error" in m):
            res.setdefault(m["id"], []).append({k: m[k] for k in m if k in ("result", "error")})
    return {"responses": {str(k): v for k, v in res.items()}, "alive": alive, "n_messages": len(got)}
