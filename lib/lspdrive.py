"""Drive the real emmylua_ls binary over stdio with a JSON-RPC message script; collect responses."""
import json
import os
import select
import subprocess
import tempfile
import time


def frame(obj):
    b = json.dumps(obj).encode()
    return b"Content-Length: %d\r\n\r\n" % len(b) + b


def run_session(exe, messages, wait_ids, timeout=20.0, settle=1.0):
    """messages: list of JSON-RPC objects sent in order (initialize/initialized are prepended).
    Returns {"responses": {id: [response objects]}, "alive": bool, "all": [...]}"""
    d = tempfile.mkdtemp(prefix="vlsp_")
    with open(os.path.join(d, "a.lua"), "w") as f:
        f.write("local a = 1\nprint(a)\n")
    root_uri = "file://" + d
    init = {"jsonrpc": "2.0", "id": 0, "method": "initialize",
            "params": {"processId": None, "rootUri": root_uri, "capabilities": {}, "workspaceFolders": [{"uri": root_uri, "name": "w"}]}}
    p = subprocess.Popen([exe], stdin=subprocess.PIPE, stdout=subprocess.PIPE, stderr=subprocess.DEVNULL, cwd=d)
    buf = b""
    got = []

    def pump(deadline, until=None):
        nonlocal buf
        while time.time() < deadline:
            r, _, _ = select.select([p.stdout], [], [], 0.1)
            if r:
                chunk = os.read(p.stdout.fileno(), 65536)
                if not chunk:
                    return
                buf += chunk
                while True:
                    i = buf.find(b"\r\n\r\n")
                    if i < 0:
                        break
                    head = buf[:i].decode(errors="replace")
                    n = 0
                    for line in head.split("\r\n"):
                        if line.lower().startswith("content-length:"):
                            n = int(line.split(":")[1])
                    if len(buf) < i + 4 + n:
                        break
                    body = buf[i + 4:i + 4 + n]
                    buf = buf[i + 4 + n:]
                    try:
                        got.append(json.loads(body))
                    except Exception:
                        pass
            if until and until():
                return

    def responded(i):
        return any(m.get("id") == i and ("result" in m or "error" in m) for m in got)

    try:
        p.stdin.write(frame(init))
        p.stdin.flush()
        pump(time.time() + timeout, lambda: responded(0))
        p.stdin.write(frame({"jsonrpc": "2.0", "method": "initialized", "params": {}}))
        p.stdin.flush()
        pump(time.time() + settle)
        for m in messages:
            p.stdin.write(frame(m))
            p.stdin.flush()
            # answer server->client requests (e.g. workspace/configuration) so the server is not blocked
            pump(time.time() + 0.2)
            for g in list(got):
                if "method" in g and "id" in g and not g.get("_answered"):
                    g["_answered"] = True
                    p.stdin.write(frame({"jsonrpc": "2.0", "id": g["id"], "result": None}))
                    p.stdin.flush()
        pump(time.time() + timeout, lambda: all(responded(i) for i in wait_ids))
        pump(time.time() + settle)
    except BrokenPipeError:
        pass
    alive = p.poll() is None
    try:
        p.kill()
    except Exception:
        pass
    res = {}
    for m in got:
        if "id" in m and ("result" in m or "error" in m):
            res.setdefault(m["id"], []).append({k: m[k] for k in m if k in ("result", "error")})
    return {"responses": {str(k): v for k, v in res.items()}, "alive": alive, "n_messages": len(got)}


# ----------------------------------------------------------------------------------------------
# scripted client with the ability to withhold answers to server->client requests, used to open
# deterministic windows (server still initializing / handlers blocked on the analysis lock)
import queue
import threading


class Client:
    def __init__(self, exe):
        self.d = tempfile.mkdtemp(prefix="vlsp_")
        with open(os.path.join(self.d, "a.lua"), "w") as f:
            f.write("local a = 1\nprint(a)\n")
        self.p = subprocess.Popen([exe], stdin=subprocess.PIPE, stdout=subprocess.PIPE, stderr=subprocess.DEVNULL, cwd=self.d)
        self.got = []
        self.lock = threading.Lock()
        self.held = queue.Queue()
        self.hold = None            # predicate over server->client requests whose answer is withheld
        self.auto = None            # function(request) -> result for auto-answered server requests
        self.t = threading.Thread(target=self._reader, daemon=True)
        self.t.start()

    def _reader(self):
        buf = b""
        fd = self.p.stdout.fileno()
        while True:
            try:
                chunk = os.read(fd, 65536)
            except OSError:
                return
            if not chunk:
                return
            buf += chunk
            while True:
                i = buf.find(b"\r\n\r\n")
                if i < 0:
                    break
                n = 0
                for line in buf[:i].decode(errors="replace").split("\r\n"):
                    if line.lower().startswith("content-length:"):
                        n = int(line.split(":")[1])
                if len(buf) < i + 4 + n:
                    break
                body = buf[i + 4:i + 4 + n]
                buf = buf[i + 4 + n:]
                try:
                    m = json.loads(body)
                except Exception:
                    continue
                with self.lock:
                    self.got.append(m)
                if "method" in m and "id" in m:
                    if self.hold and self.hold(m):
                        self.held.put(m)
                    else:
                        res = self.auto(m) if self.auto else None
                        self.send({"jsonrpc": "2.0", "id": m["id"], "result": res})

    def send(self, obj):
        try:
            self.p.stdin.write(frame(obj))
            self.p.stdin.flush()
        except (BrokenPipeError, ValueError):
            pass

    def request(self, i, method, params):
        self.send({"jsonrpc": "2.0", "id": i, "method": method, "params": params})

    def notify(self, method, params):
        self.send({"jsonrpc": "2.0", "method": method, "params": params})

    def responses(self, i):
        with self.lock:
            return [m for m in self.got if m.get("id") == i and "method" not in m and ("result" in m or "error" in m)]

    def wait(self, i, timeout):
        t0 = time.time()
        while time.time() - t0 < timeout:
            if self.responses(i):
                return True
            time.sleep(0.05)
        return False

    def initialize(self, caps, wait=True):
        root = "file://" + self.d
        self.request(0, "initialize", {"processId": None, "rootUri": root, "capabilities": caps,
                                       "workspaceFolders": [{"uri": root, "name": "w"}]})
        self.wait(0, 60)
        self.notify("initialized", {})

    def stop(self):
        try:
            self.p.kill()
        except Exception:
            pass


HOVER = {"textDocument": {"uri": "file:///c24/none.lua"}, "position": {"line": 0, "character": 0}}
SYM = {"textDocument": {"uri": "file:///c24/none.lua"}}


def session_cancel_during_init(exe):
    """requests and their cancels arrive while the server is still initializing (cancel overtakes the request)"""
    c = Client(exe)
    c.hold = lambda m: m["method"] == "workspace/configuration"
    c.initialize({"workspace": {"configuration": True}})
    try:
        cfg = c.held.get(timeout=60)
    except Exception:
        c.stop()
        return {"setup_failed": "server did not ask for workspace/configuration"}
    c.hold = None
    ids = [20, 21, "s22", 23]
    c.request(20, "textDocument/hover", HOVER)
    c.request(21, "textDocument/documentSymbol", SYM)
    c.request("s22", "textDocument/foldingRange", SYM)
    c.request(23, "textDocument/hover", 42)
    for i in (20, "s22", 23):
        c.notify("$/cancelRequest", {"id": i})
    time.sleep(1.0)
    c.send({"jsonrpc": "2.0", "id": cfg["id"], "result": [None]})
    c.request(25, "textDocument/hover", HOVER)
    c.wait(25, 120)
    for i in ids:
        c.wait(i, 5)
    time.sleep(0.5)
    out = {str(i): len(c.responses(i)) for i in ids + [25]}
    c.stop()
    return out


def session_cancel_in_flight(exe):
    """requests are cancelled while their handlers are blocked on the analysis lock held by a workspace reload"""
    c = Client(exe)
    c.initialize({"workspace": {"configuration": True}, "window": {"workDoneProgress": True}})
    time.sleep(1.0)
    c.auto = lambda m: ([{"diagnostics": {"enable": False}} for _ in m["params"]["items"]]
                        if m["method"] == "workspace/configuration" else None)
    c.hold = lambda m: m["method"] == "window/workDoneProgress/create" and m["params"].get("token") == 0
    c.notify("workspace/didChangeConfiguration", {"settings": None})
    try:
        create = c.held.get(timeout=60)
    except Exception:
        c.stop()
        return {"setup_failed": "server did not start a workspace reload"}
    ids = [10, 11, "s12"]
    c.request(10, "textDocument/hover", HOVER)
    c.request(11, "textDocument/documentSymbol", SYM)
    c.request("s12", "textDocument/foldingRange", SYM)
    time.sleep(0.3)
    c.notify("$/cancelRequest", {"id": 10})
    c.notify("$/cancelRequest", {"id": "s12"})
    time.sleep(0.3)
    c.send({"jsonrpc": "2.0", "id": create["id"], "result": None})
    c.request(13, "textDocument/hover", HOVER)
    c.wait(13, 120)
    for i in ids:
        c.wait(i, 5)
    time.sleep(0.5)
    out = {str(i): len(c.responses(i)) for i in ids + [13]}
    c.stop()
    return out


def session_bad_initialize(exe):
    """an `initialize` whose params do not deserialize must be answered (with an error); a later valid one is served"""
    c = Client(exe)
    root = "file://" + c.d
    c.request(0, "initialize", {"processId": None, "rootUri": root, "capabilities": 42})
    c.wait(0, 10)
    c.request(1, "initialize", {"processId": None, "rootUri": root, "capabilities": {}, "workspaceFolders": [{"uri": root, "name": "w"}]})
    c.wait(1, 30)
    c.notify("initialized", {})
    time.sleep(1.0)
    c.request(2, "textDocument/hover", HOVER)
    c.wait(2, 60)
    time.sleep(0.3)
    out = {str(i): len(c.responses(i)) for i in (0, 1, 2)}
    out["alive"] = c.p.poll() is None
    c.stop()
    return out


def session_after_shutdown(exe):
    """a request that arrives after `shutdown` (before `exit`) still gets exactly one response (LSP: InvalidRequest)"""
    c = Client(exe)
    root = "file://" + c.d
    c.request(0, "initialize", {"processId": None, "rootUri": root, "capabilities": {}, "workspaceFolders": [{"uri": root, "name": "w"}]})
    c.wait(0, 30)
    c.notify("initialized", {})
    time.sleep(1.0)
    c.request(1, "textDocument/hover", HOVER)
    c.wait(1, 60)
    c.request(2, "shutdown", None)
    c.wait(2, 20)
    c.request(3, "textDocument/hover", HOVER)
    c.request("s4", "workspace/symbol", {"query": "x"})
    c.request(5, "shutdown", None)           # a client that retries its shutdown
    c.request("s6", "shutdown", None)
    c.wait(3, 5)
    c.wait("s4", 5)
    c.wait(5, 5)
    c.wait("s6", 5)
    time.sleep(0.3)
    out = {str(i): len(c.responses(i)) for i in (0, 1, 2, 3, "s4", 5, "s6")}
    c.notify("exit", None)
    time.sleep(0.3)
    c.stop()
    return out


def session_before_initialized(exe):
    """a request sent after the initialize response but before the `initialized` notification is answered, and the server lives on"""
    c = Client(exe)
    root = "file://" + c.d
    c.request(0, "initialize", {"processId": None, "rootUri": root, "capabilities": {}, "workspaceFolders": [{"uri": root, "name": "w"}]})
    c.wait(0, 30)
    c.request(1, "textDocument/hover", HOVER)
    c.wait(1, 5)
    c.notify("initialized", {})
    time.sleep(1.0)
    c.request(2, "textDocument/hover", HOVER)
    c.wait(2, 60)
    time.sleep(0.3)
    out = {str(i): len(c.responses(i)) for i in (0, 1, 2)}
    c.stop()
    return out


def session_shutdown_while_loading(exe):
    """requests sent while the workspace is still loading, then `shutdown`: the queued requests are answered before the server goes down"""
    c = Client(exe)
    c.hold = lambda m: m["method"] == "workspace/configuration"
    c.initialize({"workspace": {"configuration": True}})
    try:
        cfg = c.held.get(timeout=60)
    except Exception:
        c.stop()
        return {"setup_failed": "server did not ask for workspace/configuration"}
    c.hold = None
    c.request(30, "textDocument/hover", HOVER)
    c.request("s31", "textDocument/documentSymbol", SYM)
    c.request(32, "shutdown", None)
    time.sleep(1.0)
    c.send({"jsonrpc": "2.0", "id": cfg["id"], "result": [None]})
    for i in (30, "s31", 32):
        c.wait(i, 60)
    time.sleep(0.5)
    out = {str(i): len(c.responses(i)) for i in (30, "s31", 32)}
    c.notify("exit", None)
    time.sleep(0.3)
    c.stop()
    return out
