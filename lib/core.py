"""Obligation bookkeeping, known findings, evidence files, exit codes."""
import json
import os
import re
import time

VERIF = os.environ.get("VERIF_ROOT", "/verif")
KNOWN = os.path.join(VERIF, "known_findings.json")


class Obligation:
    """One solver query (or a bundle decided by one solver call)."""

    def __init__(self, oid, engine, what, bounds, functions=None):
        self.oid = oid              # e.g. "clamp/s1121"
        self.role = oid.split("/")[0]
        self.engine = engine        # "K" (Kani/CBMC) or "M" (MIR->SMT)
        self.what = what
        self.bounds = bounds
        self.functions = functions or []
        self.status = "pending"     # pass | violation | known | inconclusive
        self.detail = ""
        self.solver_s = 0.0
        self.wall_s = 0.0
        self.witness = False        # reachability witness satisfied
        self.counterexamples = []   # list of dicts (check, values, replay status, path)
        self.extra = {}

    def to_sample(self):
        d = {"obligation": self.oid, "engine": self.engine, "what": self.what, "bounds": self.bounds,
             "status": self.status, "solver_s": round(self.solver_s, 3)}
        if self.detail:
            d["detail"] = self.detail
        if self.counterexamples:
            d["counterexamples"] = [
                {k: v for k, v in c.items() if k != "source"} for c in self.counterexamples[:3]]
        if self.extra:
            d.update(self.extra)
        return d


class Outcome:
    def __init__(self, prop, tier, seed):
        self.prop = prop
        self.tier = tier
        self.seed = seed
        self.obligations = []
        self.assumptions = []
        self.functions = []
        self.bounds = {}
        self.outside = []
        self.stubs = []
        self.notes = []
        self.lines = []         # VIOLATION / KNOWN-FINDING lines
        self.t0 = time.time()
        self.fatal = None       # machinery failure => exit 2
        self.extra_cov = {}

    def add(self, ob):
        self.obligations.append(ob)
        return ob

    def violation(self, replay_path, what=""):
        self.lines.append("VIOLATION property=%s replay=%s" % (self.prop, replay_path) + ((" " + what) if what else ""))

    def known(self, what):
        line = "KNOWN-FINDING: property=%s %s" % (self.prop, what)
        if line not in self.lines:
            self.lines.append(line)

    def exit_code(self):
        if any(l.startswith("VIOLATION") for l in self.lines):
            return 1
        if self.fatal or any(o.status in ("inconclusive", "pending") for o in self.obligations):
            return 2
        return 0


def load_known():
    try:
        return json.load(open(KNOWN))
    except FileNotFoundError:
        return {"findings": [], "fixed": []}


def match_known(prop, role, check, ctx=None):
    """A finding is identified by property + obligation role + failing check text (+ optional
    predicate over the counterexample context).  Returns the finding or None."""
    for f in load_known().get("findings", []):
        if f.get("property") != prop:
            continue
        if f.get("role") and f["role"] != role:
            continue
        if f.get("check") and f["check"] != check:
            continue
        req = f.get("requires", {})
        ok = True
        for k, v in req.items():
            if (ctx or {}).get(k) != v:
                ok = False
        if ok:
            return f
    return None


def write_evidence(out: Outcome, level="model_checking"):
    obs = out.obligations
    decided = [o for o in obs if o.status in ("pass", "violation", "known")]
    nontrivial = [o for o in decided if o.witness]
    n_viol = sum(1 for l in out.lines if l.startswith("VIOLATION"))
    samples = [o.to_sample() for o in obs if o.status != "pass"][:8]
    samples += [o.to_sample() for o in obs if o.status == "pass"][: max(2, 10 - len(samples))]
    cov = {
        "evaluations": len(decided),
        "distinct_nontrivial": len(nontrivial),
        "rule": ("one evaluation = one solver query (CBMC/cadical on a Kani harness, or z3 on a MIR path "
                 "encoding) that reached a verdict over ALL values inside its bound; distinct = distinct "
                 "(obligation, structure shape) pairs; non-trivial = the query's reachability witness "
                 "(kani::cover / satisfiable path condition) was satisfied, i.e. the assertion was reached"),
        "samples": samples,
        "obligations": len(obs),
        "discharged": sum(1 for o in obs if o.status == "pass"),
        "violations_confirmed_by_replay": sum(1 for o in obs if o.status in ("violation", "known")),
        "inconclusive": [{"obligation": o.oid, "reason": o.detail} for o in obs if o.status in ("inconclusive", "pending")],
        "functions_encoded": out.functions,
        "bounds": out.bounds,
        "outside_bounds": out.outside,
        "stubs": out.stubs,
        "unwinding_assertions": True,
        "solver_time_s": round(sum(o.solver_s for o in obs), 3),
        "queries": len(decided),
        "exhaustive": False,
        "reported_lines": out.lines,
    }
    cov.update(out.extra_cov)
    if out.fatal:
        cov["machinery_failure"] = out.fatal
    ev = {
        "property_id": out.prop,
        "tier": out.tier,
        "seed": out.seed,
        "level": level,
        "coverage": cov,
        "assumptions": out.assumptions,
        "wall_s": round(time.time() - out.t0, 2),
        "violations": n_viol,
    }
    os.makedirs(os.path.join(VERIF, "evidence"), exist_ok=True)
    p = os.path.join(VERIF, "evidence", out.prop + ".json")
    with open(p, "w") as f:
        json.dump(ev, f, indent=1)
    return p
