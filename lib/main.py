import argparse
import importlib
import os
import sys
import traceback

sys.path.insert(0, os.path.dirname(os.path.abspath(__file__)))
sys.path.insert(0, os.path.join(os.path.dirname(os.path.abspath(__file__)), "..", "props"))

import core  # noqa: E402
import kflow  # noqa: E402


def main():
    ap = argparse.ArgumentParser()
    ap.add_argument("prop")
    ap.add_argument("--tier", default=os.environ.get("VERIF_TIER", "quick"), choices=["quick", "thorough"])
    ap.add_argument("--replay")
    a = ap.parse_args()
    prop = a.prop.upper()
    if a.replay:
        rec_kind = "M" if a.replay.endswith(".m.json") else "K"
        if rec_kind == "K":
            sys.exit(kflow.replay_file(a.replay))
        import mflow
        sys.exit(mflow.replay_file(a.replay))
    if a.tier == "thorough":
        os.environ["VERIF_DEEP"] = "1"
    seed = int(os.environ.get("VERIF_SEED", "0") or 0)
    out = core.Outcome(prop, a.tier, seed)
    try:
        mod = importlib.import_module(prop.lower())
        mod.run(out)
    except Exception:
        out.fatal = "machinery exception: " + traceback.format_exc()[-3000:]
    for o in out.obligations:
        if o.status == "pass" and not o.witness:
            # a verdict without its reachability witness proves nothing: never reported as held
            o.status = "inconclusive"
            o.detail = "vacuous: the obligation passed but its reachability witness was not satisfied"
    path = core.write_evidence(out)
    for l in out.lines:
        print(l)
    n = len(out.obligations)
    print("[%s %s] obligations=%d pass=%d known=%d violation=%d inconclusive=%d evidence=%s" % (
        prop, a.tier, n, sum(o.status == "pass" for o in out.obligations),
        sum(o.status == "known" for o in out.obligations),
        sum(o.status == "violation" for o in out.obligations),
        sum(o.status in ("inconclusive", "pending") for o in out.obligations), path))
    if out.fatal:
        print("MACHINERY-FAILURE: " + out.fatal, file=sys.stderr)
    for o in out.obligations:
        if o.status in ("inconclusive", "pending"):
            print("INCONCLUSIVE %s: %s" % (o.oid, o.detail), file=sys.stderr)
    sys.exit(out.exit_code())


main()
