"""C02 — Parsing never crashes or hangs (kernel scope: panic-freedom and bounded termination of the C01 kernels)."""
import mflow
import parsekernels as pk
import symex
from core import match_known
import c01


def replay(out, pending):
    if not pending:
        return
    res = mflow.native_replay({"kind": "parse", "texts": c01.TEXTS})
    for ob, fails, sample in pending:
        crashed = "error" in res
        if not crashed:
            ob.status = "inconclusive"
            ob.detail = ("solver found a possible panic / unbounded loop in the builder (%s) but the real parser handles all %d native texts"
                         % ("; ".join(sorted(set(fails))[:3])[:300], len(c01.TEXTS)))
            continue
        rec = {"property": out.prop, "role": ob.role, "solver_findings": sorted(set(fails))[:6], "scenario": {"kind": "parse", "texts": c01.TEXTS},
               "native": res, "violates": True}
        path = mflow.write_replay(out, ob.oid.replace("/", "_"), rec)
        kf = match_known(out.prop, ob.role, ob.oid.split("/")[1], {})
        if kf:
            ob.status = "known"
            out.known("%s [%s]" % (kf["what"], ob.oid))
        else:
            ob.status = "violation"
            ob.detail = "%s — the real parser crashed on the native texts: %s" % ("; ".join(sorted(set(fails))[:3])[:300], str(res)[:200])
            out.violation(path, "(%s)" % ob.oid)


def run(out):
    maxops = 4 if out.tier == "quick" else 5
    out.functions = ["Reader::{new,bump,reset_buff,is_eof,current_range,tail_range}", "LuaGreenNodeBuilder::{token,start_node,finish_node,is_trivia,is_trivia_whitespace}",
                     "LuaParser::{init,bump,skip_trivia,parse_trivia_tokens,parse_comments,peek_next_token,peek_nth_token,previous_token_range,current_token_range}"]
    out.bounds = {"reader": "texts of every byte-width shape of <= %d characters, <= k+1 symbolic operations; Kani's panic / overflow / bounds / unwinding checks" % (3 if out.tier == "quick" else 4),
                  "builder": "EVERY event sequence (balanced or not, wrapped in the root Block or raw) of <= %d inner events through LuaTreeBuilder::build, all kinds symbolic: index / drain / insert in range, loops bounded" % maxops}
    out.outside = ["stack overflow from deeply nested input (recursive descent; no stack model)", "the linear-time clause", "the lexer and the grammar themselves",
                   "longer operation sequences"]
    out.assumptions = ["event streams have the shape the grammar gives them: NodeStart(Block) <inner> NodeEnd (parse_chunk); G1: a nested Block directly follows the non-trivia keyword token that "
                       "introduces it; G2 (losslessness only): before the first token is eaten at most one open node is closed by error recovery, and the token after it is the unexpected, non-trivia one",
                       "Vec / slice / iterator operations panic exactly when their index or range is out of bounds (exact models in mirsmt/vecmodel.py)",
                       "Kani's std model for the Reader harnesses"]
    pk.run_reader(out)
    mc = mflow.MContext(out)
    pending = []
    try:
        pending = pk.builder_obligations(out, mc, False, maxops)
        pending += pk.parser_obligations(out, mc, False, 3 if out.tier == "quick" else 5)
    except (symex.Unsupported, RuntimeError, KeyError, ValueError, IndexError, AttributeError, TypeError) as e:
        import traceback
        out.fatal = "engine M could not encode the current source: %r\n%s" % (e, traceback.format_exc()[-1500:])
    replay(out, pending)
    mc.finish()
