"""C36 — The checker's exit status and reports match the diagnostics (engine K + M)."""
import json
import os
import re
import subprocess
import tempfile
import time

import z3

import mflow
import symex
from core import Obligation, match_known
from kflow import HDef, run_k

LSP_DIAG_SEVERITY_FIELD = 1  # emmy_lsp_types::Diagnostic { range, severity, ... }


def k_filter(out):
    hs = [HDef("c36_filter_allows", "filter_allows",
               "#[kani::proof] pub fn c36_filter_allows() { filter_allows() }",
               "DiagnosticSeverityFilter::allows(filter, severity) over all 4 filters x {None, ERROR, WARNING, INFORMATION, HINT}: "
               "allowed iff the severity exists and is at least as severe as the filter",
               {"filters": 4, "severities": 5, "symbolic": "filter and severity"}, {},
               ["emmylua_check::DiagnosticSeverityFilter::allows", "From<DiagnosticSeverityFilter> for DiagnosticSeverity"])]
    run_k(out, "c36", "check", hs, jobs=2, harness_timeout=600, overall_timeout=2400, mem_gb=12)


def _coroutine_args(ex, st):
    state = symex.Opaque("coroutine", ("state",), {("discr",): symex.BV(z3.BitVecVal(0, 64), True)})
    cid = st.new_cell(state)
    pin = symex.Agg("Pin", None, [symex.Ref(("heap", cid), (), True)])
    cx = symex.Ref(("heap", st.new_cell(symex.Opaque("Context", ("cx",)))), (), True)
    return [pin, cx]


def m_output_result(out, mc, results):
    fns = mc.fns("emmylua_check", None)
    fn = [f for f in fns if f.name == "output_result::{closure#0}"]
    clo = [f for f in fns if f.name == "output_result::{closure#0}::{closure#0}"]
    ob_exit = out.add(Obligation("exit_fold/status_is_1_iff_error_or_warning_as_error_among_retained", "M",
                                 "output_result returns 1 iff some diagnostic it iterates (after the severity filter) has severity ERROR, or WARNING under "
                                 "warnings_as_errors; 0 otherwise — for every sequence of <= 2 received files with <= 2 diagnostics each, all severities symbolic",
                                 {"function": "output_result::{closure#0} (async body, state 0, awaits complete)", "files": "<=2", "diagnostics_per_file": "<=2"}, []))
    ob_flow = out.add(Obligation("exit_fold/filter_then_count_then_write_same_list", "M",
                                 "for every received Some(list): retain(allows) is applied iff a severity filter is given, BEFORE the list is scanned for the "
                                 "exit status, and the list handed to writer.write is that same filtered list, once per file, under that file's id; finish() once",
                                 {"function": "output_result::{closure#0}", "files": "<=2"}, []))
    ob_clo = out.add(Obligation("exit_fold/retain_predicate_is_allows", "M",
                                "the retain predicate returns DiagnosticSeverityFilter::allows(filter, diagnostic.severity) unmodified",
                                {"function": "output_result::{closure#0}::{closure#0}"}, []))
    if len(fn) != 1 or len(clo) != 1:
        for ob in (ob_exit, ob_flow, ob_clo):
            ob.status = "inconclusive"
            ob.detail = "output_result coroutine / retain closure not found in MIR (%d/%d candidates)" % (len(fn), len(clo))
        return
    fn, clo = fn[0], clo[0]
    for ob in (ob_exit, ob_flow):
        ob.functions = [fn.name]
    ob_clo.functions = [clo.name]
    # --- retain predicate
    ex = symex.Executor(fns)
    paths = ex.run(clo)
    fails = []
    ok = 0
    for p in paths:
        if p.kind != "return":
            fails.append("closure path kind %s" % p.kind)
            continue
        ev = mflow.find_event(p, r"DiagnosticSeverityFilter::allows$")
        if ev is None:
            fails.append("retain predicate does not call allows")
            continue
        want_sev = ex.deep_key(p.state, ex.get_path(p.state, ex.deref(p.state, p.state.frames[0]["_2"]),
                                                  [("field", LSP_DIAG_SEVERITY_FIELD, "std::option::Option<emmy_lsp_types::DiagnosticSeverity>")]))
        if ev["akeys"][1] != want_sev:
            fails.append("allows is asked about %s, not the diagnostic's severity" % ev["akeys"][1])
        if "(arg,1)" not in ev["akeys"][0]:
            fails.append("allows is asked with a filter that is not the captured one")
        if symex.vkey(p.ret) != symex.vkey(ev["result"]):
            fails.append("retain predicate is not the value of allows (negated or replaced)")
        ok += 1
    ob_clo.witness = ok > 0
    ob_clo.status = "pass" if not fails and ok else "pending"
    if fails or not ok:
        ob_clo.detail = "; ".join(sorted(set(fails))) or "no returning path"
        results.append((ob_clo, fails or ["no path"]))
    # --- the async body
    ex = symex.Executor(fns, max_visits=3, max_paths=60000)
    st = symex.State()
    args = _coroutine_args(ex, st)
    t0 = time.time()
    paths = ex.run(fn, args, st)
    sym_s = time.time() - t0
    out.extra_cov.setdefault("symbolic_execution", []).append(
        {"function": fn.name, "blocks": len(fn.blocks), "paths": len(paths), "seconds": round(sym_s, 2), **ex.stats})
    rets = [p for p in paths if p.kind == "return"]
    cut = [p for p in paths if p.kind == "cut"]
    bad_kinds = [p for p in paths if p.kind not in ("return", "cut")]
    fails_exit, fails_flow = [], []
    cex = None
    n_checked = 0
    seen_shapes = set()
    deadline = time.time() + float(os.environ.get("VERIF_SYMEX_BUDGET_S", "900"))
    for p in rets:
        if time.time() > deadline:
            # not a verdict: the obligation stays open and only a native confirmation can turn it into a VIOLATION
            fails_exit.append("the per-path analysis exceeded its time budget after %d of %d paths" % (n_checked, len(rets)))
            break
        r = p.ret
        if not (isinstance(r, symex.Agg) and r.variant == "Ready"):
            continue  # Pending returns do not occur (awaits complete)
        code = r.fields[0]
        # every diagnostic the scan looked at: results of slice::Iter::next that are Some on this path
        nexts = [e for e in p.trace if re.search(r"Iter.*::next$|::next$", e.get("short", "")) and "Diagnostic" in e["callee"]]
        terms = []
        wae = ex.get_path(p.state, p.state.heap[0], [("field", 6, "bool")])
        n_some = 0
        for e in nexts:
            d = ex.discriminant(p.state, e["result"])
            if not mc.implied_eq(p, d.term, 1):
                continue
            n_some += 1
            diag_ref = symex.LazyPayload(ex, p.state, e["result"], "Some")[0]
            diag = ex.deref(p.state, diag_ref)
            sev = ex.child(p.state, diag, ("field", LSP_DIAG_SEVERITY_FIELD, "std::option::Option<emmy_lsp_types::DiagnosticSeverity>"))
            sd = ex.discriminant(p.state, sev)
            inner = symex.LazyPayload(ex, p.state, sev, "Some")[0]
            raw = ex.child(p.state, inner, ("field", 0, "i32"))
            is_some = sd.term == z3.BitVecVal(1, 64)
            terms.append(z3.And(is_some, z3.Or(raw.term == 1, z3.And(raw.term == 2, wae.term))))
        want = z3.Or(terms) if terms else z3.BoolVal(False)
        if not isinstance(code, symex.BV):
            fails_exit.append("exit code is not an integer in the encoding")
            continue
        prop = (code.term == z3.BitVecVal(1, 32)) == want
        prop = z3.And(prop, z3.Or(code.term == 0, code.term == 1))
        res, model = mc.check(list(p.pc) + [z3.Not(prop)], "exit")
        n_checked += 1
        recvs = [e for e in p.trace if re.search(r"Receiver::recv$", e.get("short", ""))]
        seen_shapes.add((len(recvs), n_some))
        if res == "sat" and cex is None:
            cex = {"files_received": len(recvs), "diagnostics_scanned": n_some,
                   "exit_code": int(str(model.eval(code.term, model_completion=True))),
                   "warnings_as_errors": bool(z3.is_true(model.eval(wae.term, model_completion=True)))}
            fails_exit.append("exit status differs from 'some retained diagnostic is an error (or a warning under --warnings-as-errors)': %s" % cex)
        elif res == "unknown":
            fails_exit.append("solver unknown")
        # ---- flow: per received Some(list)
        writes = [e for e in p.trace if re.search(r"OutputWriter>::write$|OutputWriter::write$", e["callee"])]
        retains = [e for e in p.trace if re.search(r"Vec::retain$", e.get("short", ""))]
        iters = [e for e in p.trace if re.search(r"IntoIterator>::into_iter$|::into_iter$", e["callee"]) and "Diagnostic" in e["callee"]]
        finishes = [e for e in p.trace if re.search(r"OutputWriter>::finish$|OutputWriter::finish$", e["callee"])]
        if len(finishes) != 1:
            fails_flow.append("writer.finish() called %d times" % len(finishes))
        if len(writes) != len(iters):
            fails_flow.append("%d lists scanned for the exit status but %d written" % (len(iters), len(writes)))
        filt = ex.get_path(p.state, p.state.heap[0], [("field", 7, "std::option::Option<cmd_args::DiagnosticSeverityFilter>")])
        fd = ex.discriminant(p.state, filt)
        has_filter = mc.implied_eq(p, fd.term, 1)
        if has_filter and len(retains) != len(iters):
            fails_flow.append("severity filter given but retain applied %d times for %d lists" % (len(retains), len(iters)))
        if not has_filter and retains:
            if mc.implied_eq(p, fd.term, 0):
                fails_flow.append("retain applied although no severity filter is given")
        for i, (it, w) in enumerate(zip(iters, writes)):
            scanned = it["akeys"][0].lstrip("&")
            written = w["akeys"][3]
            if scanned != written:
                fails_flow.append("the list scanned for the exit status is not the list handed to the report writer (scan before filter?)")
            if has_filter and i < len(retains):
                # order in the trace: retain before into_iter
                if p.trace.index(retains[i]) > p.trace.index(it):
                    fails_flow.append("exit-status scan happens before the severity filter is applied")
                if "closure" not in retains[i]["akeys"][1]:
                    fails_flow.append("retain predicate is not the allows-closure")
    if bad_kinds:
        fails_exit.append("unexpected path kinds: %s" % sorted({(p.kind, p.info[:80]) for p in bad_kinds})[:3])
    ob_exit.extra = {"paths_checked": n_checked, "cut_paths_beyond_bound": len(cut), "shapes_(files,diagnostics)": sorted(seen_shapes)}
    ob_flow.extra = dict(ob_exit.extra)
    ob_exit.witness = ob_flow.witness = any(s[1] >= 1 for s in seen_shapes)
    for ob, fails in ((ob_exit, fails_exit), (ob_flow, fails_flow)):
        if n_checked == 0:
            fails.append("no completed path")
        if fails:
            ob.status = "pending"
            ob.detail = "; ".join(sorted(set(fails)))[:600]
            results.append((ob, fails))
        else:
            ob.status = "pass"
    if cex:
        ob_exit.extra["counterexample"] = cex


def m_run_check(out, mc, results):
    """M-C36-c: run_check diagnoses every main-workspace file exactly once and reports it under its own id"""
    fns = mc.fns("emmylua_check", None)
    fn = [f for f in fns if f.name == "run_check::{closure#0}"]
    tasks = [f for f in fns if re.match(r"^run_check::\{closure#0\}::\{closure#\d+\}$", f.name) and "Pin<&mut {async block" in f.header]
    ob = out.add(Obligation("run_check/every_main_workspace_file_diagnosed_once", "M",
                            "run_check spawns exactly one task per id yielded from get_main_workspace_file_ids() (the task captures that id), and hands "
                            "output_result the length of that same list as the number of results to wait for",
                            {"function": "run_check::{closure#0} (async body, awaits complete)", "files": "<= 2 (loop unrolled)"}, []))
    ob2 = out.add(Obligation("run_check/task_sends_its_own_file_and_diagnosis", "M",
                             "the spawned task sends (its file id, diagnose_file(its file id)) on the channel, once",
                             {"function": "run_check::{closure#0}::{closure#N} (spawned async block)"}, []))
    if len(fn) != 1:
        ob.status = ob2.status = "inconclusive"
        ob.detail = ob2.detail = "run_check coroutine not found in MIR"
        return
    fn = fn[0]
    ob.functions = [fn.name]
    ex = symex.Executor(fns, max_visits=3, max_paths=60000)
    st = symex.State()
    t0 = time.time()
    paths = ex.run(fn, _coroutine_args(ex, st), st)
    out.extra_cov.setdefault("symbolic_execution", []).append(
        {"function": fn.name, "blocks": len(fn.blocks), "paths": len(paths), "seconds": round(time.time() - t0, 2), **ex.stats})
    fails = []
    reached = 0
    for p in paths:
        if p.kind not in ("return",):
            continue
        ids = mflow.find_event(p, r"get_main_workspace_file_ids$")
        outr = [e for e in p.trace if re.search(r"(^|::)output_result$", e.get("short", ""))]
        if ids is None:
            if outr:
                fails.append("output_result is reached without asking for the main-workspace file ids")
            continue
        if not outr:
            continue
        reached += 1
        idkey = ex.deep_key(p.state, ids["result"])
        nexts = [e for e in p.trace if re.search(r"IntoIter<FileId> as Iterator>::next$", e["callee"])]
        somes = [e for e in nexts if mc.implied_eq(p, ex.discriminant(p.state, e["result"]).term, 1)]
        spawns = [e for e in p.trace if re.search(r"tokio::spawn$", e.get("short", ""))]
        if any(idkey not in e["akeys"][0] for e in nexts):
            fails.append("the loop does not iterate the list of main-workspace file ids")
        if len(spawns) != len(somes):
            fails.append("%d file ids yielded but %d tasks spawned" % (len(somes), len(spawns)))
            continue
        for e, sp in zip(somes, spawns):
            fid = ex.deep_key(p.state, symex.LazyPayload(ex, p.state, e["result"], "Some")[0])
            blk = sp["args"][0]
            if not isinstance(blk, symex.Agg) or not blk.names or "file_id" not in blk.names:
                fails.append("spawned task does not capture a file id")
                continue
            if ex.deep_key(p.state, blk.fields[blk.names.index("file_id")]) != fid:
                fails.append("spawned task captures a different file id than the one yielded")
        if len(outr) != 1:
            fails.append("output_result called %d times" % len(outr))
        else:
            tc = outr[0]["akeys"][0]
            if "Vec::len" not in tc or idkey not in tc:
                fails.append("total_count handed to output_result is not the length of the file-id list")
    ob.witness = reached > 0
    if reached == 0:
        fails.append("no path reaches output_result")
    if fails:
        ob.status = "pending"
        ob.detail = "; ".join(sorted(set(fails)))[:500]
        results.append((ob, fails))
    else:
        ob.status = "pass"
    # the spawned task
    fails2 = []
    good = 0
    for t in tasks:
        ex2 = symex.Executor(fns, max_visits=2)
        st2 = symex.State()
        ps = ex2.run(t, _coroutine_args(ex2, st2), st2)
        for p in ps:
            if p.kind != "return":
                continue
            dg = mflow.find_event(p, r"EmmyLuaAnalysis::diagnose_file$")
            if dg is None:
                continue
            sends = [e for e in p.trace if re.search(r"Sender::send$", e.get("short", ""))]
            if len(sends) != 1:
                fails2.append("task sends %d messages" % len(sends))
                continue
            msg = sends[0]["args"][1]
            if not isinstance(msg, symex.Agg) or len(msg.fields) != 2:
                fails2.append("sent message is not a (file id, diagnostics) pair")
                continue
            if ex2.deep_key(p.state, msg.fields[0]) != dg["akeys"][1]:
                fails2.append("task reports its diagnostics under a different file id than the one it diagnosed")
            if ex2.deep_key(p.state, msg.fields[1]) != ex2.deep_key(p.state, dg["result"]):
                fails2.append("task does not send the result of diagnose_file")
            good += 1
        ob2.functions.append(t.name)
    ob2.witness = good > 0
    if good == 0:
        fails2.append("no spawned task that diagnoses a file and sends the result was found")
    if fails2:
        ob2.status = "pending"
        ob2.detail = "; ".join(sorted(set(fails2)))
        results.append((ob2, fails2))
    else:
        ob2.status = "pass"


# ---------------------------------------------------------------------------------------------
# native replay: the real emmylua_check binary on generated workspaces

def build_check_bin():
    env = dict(os.environ)
    env["CARGO_TARGET_DIR"] = os.path.join(os.environ.get("VERIF_ROOT", "/verif"), ".build", "native-repo")
    env["CARGO_NET_OFFLINE"] = "true"
    env.pop("RUSTFLAGS", None)
    os.makedirs(os.path.join(os.environ.get("VERIF_ROOT", "/verif"), ".build", "logs"), exist_ok=True)
    with open(os.path.join(os.environ.get("VERIF_ROOT", "/verif"), ".build", "logs", "emmylua_check.build.log"), "w") as log:
        r = subprocess.run(["cargo", "build", "--offline", "-p", "emmylua_check"], cwd="/repo", env=env, stdout=log,
                           stderr=subprocess.STDOUT, timeout=3600)
    exe = os.path.join(os.environ.get("VERIF_ROOT", "/verif"), ".build", "native-repo", "debug", "emmylua_check")
    return exe if r.returncode == 0 and os.path.exists(exe) else None


def run_check_bin(exe, files, emmyrc, args):
    with tempfile.TemporaryDirectory(prefix="vc36_") as d:
        for name, text in files.items():
            with open(os.path.join(d, name), "w") as f:
                f.write(text)
        if emmyrc is not None:
            with open(os.path.join(d, ".emmyrc.json"), "w") as f:
                json.dump(emmyrc, f)
        outp = os.path.join(d, "out.json")
        p = subprocess.run([exe, d] + args + ["--output-format", "json", "--output", outp], capture_output=True, text=True, timeout=300)
        rep = None
        try:
            rep = json.load(open(outp))
        except Exception:
            pass
        return p.returncode, rep


WARN_ONLY = {"a.lua": "local t = {}\n---@deprecated\nfunction t.old() end\nlocal unused_var = 1\n---@param x integer\nlocal function f(x) return x end\nf('s')\n"}
ERR_FILE = {"a.lua": "print(zzz_undefined_name)\n"}
CLEAN = {"a.lua": "local _a = 1\n"}


def battery(exe):
    """(id, description, violates?)"""
    res = []

    def count(rep):
        if rep is None:
            return None
        n = 0
        for f in rep if isinstance(rep, list) else rep.get("files", rep.get("results", [])):
            n += len(f.get("diagnostics", []))
        return n

    rc, rep = run_check_bin(exe, WARN_ONLY, None, ["--warnings-as-errors", "--severity", "error"])
    res.append(("wae_severity_error_on_warning_only", "warnings filtered out by --severity error must not fail the run", rc != 0 and (count(rep) or 0) == 0, {"rc": rc, "n": count(rep)}))
    rc, rep = run_check_bin(exe, WARN_ONLY, None, ["--warnings-as-errors"])
    res.append(("wae_on_warning", "a warning under --warnings-as-errors must fail the run", rc == 0 and (count(rep) or 0) > 0, {"rc": rc, "n": count(rep)}))
    rc, rep = run_check_bin(exe, WARN_ONLY, None, [])
    res.append(("warning_without_wae", "a warning without --warnings-as-errors must not fail the run", rc != 0, {"rc": rc, "n": count(rep)}))
    rc, rep = run_check_bin(exe, ERR_FILE, None, [])
    res.append(("error_fails", "an error must fail the run", rc == 0, {"rc": rc, "n": count(rep)}))
    rc, rep = run_check_bin(exe, ERR_FILE, None, ["--severity", "error"])
    res.append(("error_survives_filter", "an error survives --severity error and fails the run", rc == 0 or (count(rep) or 0) == 0, {"rc": rc, "n": count(rep)}))
    rc, rep = run_check_bin(exe, CLEAN, None, ["--warnings-as-errors"])
    res.append(("clean_passes", "a clean workspace passes", rc != 0, {"rc": rc, "n": count(rep)}))
    rc, rep = run_check_bin(exe, {"a.lua": "local x = 1\n"}, {"diagnostics": {"severity": {"unused": "information"}}}, ["--severity", "info"])
    res.append(("info_kept_by_severity_info", "--severity info keeps information-level diagnostics", (count(rep) or 0) == 0, {"rc": rc, "n": count(rep)}))
    rc, rep = run_check_bin(exe, {"a.lua": "local x = 1\n"}, {"diagnostics": {"severity": {"unused": "information"}}}, ["--severity", "warn"])
    res.append(("info_dropped_by_severity_warn", "--severity warn drops information-level diagnostics", (count(rep) or 0) != 0, {"rc": rc, "n": count(rep)}))
    many = {("f%d.lua" % i): "print(zzz_undefined_%d)\n" % i for i in range(11)}
    rc, rep = run_check_bin(exe, many, None, [])
    res.append(("every_file_reported", "each of 11 files with one error appears in the report", count(rep) is not None and count(rep) < 11, {"rc": rc, "n": count(rep)}))
    # the number of files must not matter (batching / chunking of the per-file tasks)
    for n in (1, 2, 3, 16, 17, 19, 31, 33):
        many = {("g%02d.lua" % i): "print(zzz_undefined_%d)\n" % i for i in range(n)}
        rc, rep = run_check_bin(exe, many, None, [])
        res.append(("every_file_reported_%d" % n, "each of %d files with one error appears in the report" % n, count(rep) is None or count(rep) != n or rc == 0, {"rc": rc, "n": count(rep)}))
    return res


def replay(out, pending):
    if not pending:
        return
    exe = build_check_bin()
    if exe is None:
        for ob, fails in pending:
            ob.status = "inconclusive"
            ob.detail += " — and the real emmylua_check binary did not build for the native replay"
        return
    res = battery(exe)
    hit = [r for r in res if r[2]]
    for ob, fails in pending:
        if not hit:
            ob.status = "inconclusive"
            ob.detail = ("solver found a deviation (%s) but none of the %d native scenarios of the real emmylua_check binary shows a property violation"
                         % ("; ".join(sorted(set(fails)))[:300], len(res)))
            ob.extra["battery"] = [(r[0], r[2], r[3]) for r in res]
            continue
        bid, descr, _, obs = hit[0]
        rec = {"property": out.prop, "role": ob.role, "solver_findings": sorted(set(fails)), "native_scenarios": [(r[0], r[1], r[2], r[3]) for r in res],
               "violates": True, "scenario": {"kind": "emmylua_check_battery", "first_hit": bid}}
        path = mflow.write_replay(out, ob.role + "_" + bid, rec)
        ob.counterexamples = [{"findings": sorted(set(fails))[:4], "native_scenario": bid, "observed": obs, "replay": path}]
        kf = match_known(out.prop, ob.role, bid, {})
        if kf:
            ob.status = "known"
            out.known("%s [%s/%s]" % (kf["what"], ob.role, bid))
        else:
            ob.status = "violation"
            ob.detail = "%s — confirmed with the real binary: %s %s" % ("; ".join(sorted(set(fails)))[:300], descr, obs)
            out.violation(path, "(%s: %s)" % (ob.oid, descr))


def run(out):
    out.functions = ["DiagnosticSeverityFilter::allows", "output_result (async body)", "output_result retain closure",
                     "run_check (async body)", "run_check spawned task (async block)"]
    out.bounds = {"K": "all 4 filters x 5 severities", "M": "<= 2 received files x <= 2 diagnostics each (loops unrolled 3 visits); all severities, flags symbolic"}
    out.outside = ["report contents (JSON/SARIF/text writers, file I/O)", "which files the module index calls main-workspace files", "tokio task scheduling",
                   "more than 2 files / 2 diagnostics per file (cut paths are counted, not judged)", "panics inside writers"]
    out.assumptions = ["awaits complete (Future::poll returns Ready); tokio scheduling is outside",
                       "Vec::retain(pred) keeps exactly the elements for which pred holds (std contract); the predicate itself is checked to be allows()",
                       "slice iteration yields the list's elements (std contract)",
                       "Kani's model of std for the K harness"]
    out.stubs = ["rust-i18n shim (identity translation) in the Kani build"]
    k_filter(out)
    mc = mflow.MContext(out)
    pending = []
    try:
        m_output_result(out, mc, pending)
        m_run_check(out, mc, pending)
    except (symex.Unsupported, RuntimeError, KeyError, ValueError, IndexError) as e:
        out.fatal = "engine M could not encode the current source: %r" % (e,)
    replay(out, pending)
    mc.finish()


def replay_file_m(path):
    exe = build_check_bin()
    res = battery(exe)
    print(json.dumps([(r[0], r[2], r[3]) for r in res]))
    return 1 if any(r[2] for r in res) else 0
