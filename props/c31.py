"""C31 — Loading any configuration never crashes (engine M: panic obligations of path pre-processing and key flattening)."""
import json
import os
import re
import time

import z3

import mflow
import symex
from core import Obligation, match_known
from symex import Agg, BV, BoolV, Const, Opaque, Ref, Val

NB = 6      # leading bytes of a string that are modelled exactly


class StrVal(Val):
    """a str/String value: length + byte array, valid UTF-8 on its first NB bytes"""

    def __init__(self, name, ln=None, by=None):
        self.name = name
        self.len = ln if ln is not None else z3.BitVec("len!" + name, 64)
        self.bytes = by if by is not None else z3.Array("bytes!" + name, z3.BitVecSort(64), z3.BitVecSort(8))

    def key(self):
        return "str:" + self.name

    def b(self, i):
        return z3.Select(self.bytes, z3.BitVecVal(i, 64) if isinstance(i, int) else i)

    def __repr__(self):
        return "Str(%s)" % self.name


def is_cont(b):
    return (b & 0xC0) == 0x80


def valid_utf8_prefix(s):
    """necessary conditions of UTF-8 validity on the first NB bytes (enough for boundary reasoning there)"""
    c = [z3.ULT(s.len, z3.BitVecVal(1 << 16, 64))]
    # start[i]: a character starts at byte i
    start = [z3.BoolVal(True)]
    for i in range(NB):
        bi = s.b(i)
        inside = z3.ULT(z3.BitVecVal(i, 64), s.len)
        w1 = z3.ULT(bi, 0x80)
        w2 = z3.And(z3.UGE(bi, 0xC2), z3.ULE(bi, 0xDF))
        w3 = z3.And(z3.UGE(bi, 0xE0), z3.ULE(bi, 0xEF))
        w4 = z3.And(z3.UGE(bi, 0xF0), z3.ULE(bi, 0xF4))
        c.append(z3.Implies(z3.And(inside, start[i]), z3.Or(w1, w2, w3, w4)))
        c.append(z3.Implies(z3.And(inside, z3.Not(start[i])), is_cont(bi)))
        # a multi-byte character is complete inside the string
        c.append(z3.Implies(z3.And(inside, start[i], w2), z3.ULT(z3.BitVecVal(i + 1, 64), s.len)))
        c.append(z3.Implies(z3.And(inside, start[i], w3), z3.ULT(z3.BitVecVal(i + 2, 64), s.len)))
        c.append(z3.Implies(z3.And(inside, start[i], w4), z3.ULT(z3.BitVecVal(i + 3, 64), s.len)))
        nxt = z3.Bool("start!%s!%d" % (s.name, i + 1))
        prev2 = start[i - 1] if i >= 1 else z3.BoolVal(False)
        prev3 = start[i - 2] if i >= 2 else z3.BoolVal(False)
        prev4 = start[i - 3] if i >= 3 else z3.BoolVal(False)
        b1 = s.b(i - 1) if i >= 1 else None
        b2 = s.b(i - 2) if i >= 2 else None
        b3 = s.b(i - 3) if i >= 3 else None
        ends_here = [z3.And(start[i], w1), z3.And(start[i], z3.BoolVal(False))]
        ends = [z3.And(start[i], w1)]
        if i >= 1:
            ends.append(z3.And(prev2, z3.UGE(b1, 0xC2), z3.ULE(b1, 0xDF)))
        if i >= 2:
            ends.append(z3.And(prev3, z3.UGE(b2, 0xE0), z3.ULE(b2, 0xEF)))
        if i >= 3:
            ends.append(z3.And(prev4, z3.UGE(b3, 0xF0), z3.ULE(b3, 0xF4)))
        c.append(nxt == z3.Or(ends))
        start.append(nxt)
    s.start = start
    return c


def boundary(s, idx):
    """is_char_boundary(idx) for a concrete small idx"""
    if idx == 0:
        return z3.BoolVal(True)
    i64 = z3.BitVecVal(idx, 64)
    if idx <= NB and hasattr(s, "start"):
        return z3.Or(i64 == s.len, z3.And(z3.ULT(i64, s.len), s.start[idx]))
    return z3.Or(i64 == s.len, z3.And(z3.ULT(i64, s.len), z3.Not(is_cont(s.b(idx)))))


def lit(text):
    """decode a MIR string literal constant"""
    m = re.match(r'^"(.*)"$', text, re.S)
    if not m:
        return None
    body = m.group(1)
    try:
        return body.encode().decode("unicode_escape").encode("latin-1", "ignore") if "\\" in body else body.encode()
    except Exception:
        return body.encode()


class Strings:
    def __init__(self, ex):
        self.ex = ex
        self.n = 0

    def fresh(self, st, hint):
        self.n += 1
        s = StrVal("%s%d" % (re.sub(r"\W", "_", hint)[-20:], self.n))
        st.pc += valid_utf8_prefix(s)
        return s

    def as_str(self, st, v):
        for _ in range(4):
            if isinstance(v, Ref):
                v = self.ex.deref(st, v)
        if isinstance(v, StrVal):
            return v
        if isinstance(v, Const):
            b = lit(v.text)
            if b is not None:
                s = StrVal("lit%d" % abs(hash(v.text)) )
                st.pc.append(s.len == len(b))
                for i, ch in enumerate(b[:NB]):
                    st.pc.append(s.b(i) == ch)
                st.pc += valid_utf8_prefix(s)
                s.literal = b
                return s
        return None


def mandatory_groups(pattern):
    """capture groups (1-based) that participate in every match of a regex: not inside an optional /
    alternated construct.  Conservative syntactic analysis: a group is mandatory iff no enclosing
    group is followed by ?, *, {0,..} and there is no top-level alternation around it."""
    groups = []     # (index, start, end, optional)
    stack = []
    idx = 0
    i = 0
    n = len(pattern)
    alt_depths = set()
    in_class = False
    while i < n:
        c = pattern[i]
        if c == "\\":
            i += 2
            continue
        if in_class:
            if c == "]":
                in_class = False
            i += 1
            continue
        if c == "[":
            in_class = True
        elif c == "(":
            cap = not pattern.startswith("(?", i) or pattern.startswith("(?P<", i) or pattern.startswith("(?<", i) and not pattern.startswith("(?<=", i) and not pattern.startswith("(?<!", i)
            if cap:
                idx += 1
            stack.append([idx if cap else 0, i, None, False, len(stack)])
        elif c == ")":
            g = stack.pop()
            g[2] = i
            nxt = pattern[i + 1] if i + 1 < n else ""
            g[3] = (nxt != "" and nxt in "?*") or pattern.startswith("{0", i + 1)
            groups.append(g)
        elif c == "|":
            alt_depths.add(len(stack))
        i += 1
    total = idx
    mand = set()
    for g in groups:
        if not g[0]:
            continue
        ok = not g[3] and (g[4] not in alt_depths) and (g[4] + 1 not in alt_depths or True)
        # enclosing groups
        for h in groups:
            if h is not g and h[1] < g[1] and h[2] is not None and h[2] > g[2]:
                if h[3] or (h[4] + 1) in alt_depths:
                    ok = False
        if 0 in alt_depths:
            ok = False
        if ok:
            mand.add(g[0])
    return total, mand


def install(ex, S, regex_of_closure=None):
    def ob(st, what, cond, fn):
        # the obligation is judged under the path condition AT THIS POINT (a panic happens here, so
        # nothing the model assumes afterwards may be used to discharge it)
        st.obligations.append((what, cond, fn.name, len(st.pc)))

    def m_identity_str(ex_, st, cname, args, dest_ty, fn):
        s = S.as_str(st, args[0])
        return s if s is not None else S.fresh(st, "s")

    def m_fresh_str(ex_, st, cname, args, dest_ty, fn):
        return S.fresh(st, cname.split("::")[-1])

    def m_deref_string(ex_, st, cname, args, dest_ty, fn):
        s = S.as_str(st, args[0])
        return s if s is not None else S.fresh(st, "deref")

    def m_starts_with(ex_, st, cname, args, dest_ty, fn):
        s = S.as_str(st, args[0])
        if s is None:
            return NotImplemented
        p = args[1]
        if isinstance(p, BV) and z3.is_bv_value(p.term) and p.term.as_long() < 128:
            return BoolV(z3.And(z3.UGE(s.len, 1), s.b(0) == p.term.as_long()))
        ps = S.as_str(st, p)
        if ps is not None and getattr(ps, "literal", None) is not None and len(ps.literal) <= NB:
            b = ps.literal
            return BoolV(z3.And([z3.UGE(s.len, len(b))] + [s.b(i) == ch for i, ch in enumerate(b)]))
        return NotImplemented

    def suffix(st, s, k, hint):
        r = S.fresh(st, hint)
        st.pc.append(r.len == s.len - k)
        for i in range(NB - k if k < NB else 0):
            st.pc.append(r.b(i) == s.b(i + k))
        return r

    def m_index_from(ex_, st, cname, args, dest_ty, fn):
        s = S.as_str(st, args[0])
        rng = args[1]
        if s is None or not isinstance(rng, Agg):
            return NotImplemented
        start = rng.fields[0]
        if not (isinstance(start, BV) and z3.is_bv_value(start.term)):
            ob(st, "str[start..] with a computed start is on a char boundary inside the string", z3.BoolVal(False), fn)
            return S.fresh(st, "slice")
        k = start.term.as_long()
        ob(st, "str[%d..]: %d <= len and on a char boundary" % (k, k), z3.And(z3.ULE(z3.BitVecVal(k, 64), s.len), boundary(s, k)), fn)
        return suffix(st, s, k, "slice")

    def m_index_to(ex_, st, cname, args, dest_ty, fn):
        s = S.as_str(st, args[0])
        rng = args[1]
        if s is None or not isinstance(rng, Agg):
            return NotImplemented
        end = rng.fields[-1]
        if isinstance(end, BV) and z3.is_bv_value(end.term):
            k = end.term.as_long()
            ob(st, "str[..%d]: %d <= len and on a char boundary" % (k, k), z3.And(z3.ULE(z3.BitVecVal(k, 64), s.len), boundary(s, k)), fn)
        else:
            ob(st, "str[..end] with a computed end is on a char boundary inside the string", z3.BoolVal(False), fn)
        return S.fresh(st, "slice")

    def m_split_at(ex_, st, cname, args, dest_ty, fn):
        s = S.as_str(st, args[0])
        mid = args[1]
        if s is not None and isinstance(mid, BV) and z3.is_bv_value(mid.term):
            k = mid.term.as_long()
            ob(st, "split_at(%d) on a char boundary inside the string" % k, z3.And(z3.ULE(z3.BitVecVal(k, 64), s.len), boundary(s, k)), fn)
        else:
            ob(st, "split_at(mid) with a computed mid is on a char boundary", z3.BoolVal(False), fn)
        return Agg("tuple", None, [S.fresh(st, "l"), S.fresh(st, "r")])

    def m_len(ex_, st, cname, args, dest_ty, fn):
        s = S.as_str(st, args[0])
        return BV(s.len) if s is not None else NotImplemented

    def m_is_empty(ex_, st, cname, args, dest_ty, fn):
        s = S.as_str(st, args[0])
        return BoolV(s.len == 0) if s is not None else NotImplemented

    def m_unwrap(ex_, st, cname, args, dest_ty, fn):
        v = args[0]
        kind = "Option" if "Option" in cname else "Result"
        good = "Some" if kind == "Option" else "Ok"
        if isinstance(v, Agg):
            ob(st, "%s::%s on a value that is %s" % (kind, cname.split("::")[-1].split("<")[0], good), z3.BoolVal(v.variant == good), fn)
            return v.fields[0] if v.fields else symex.Unit()
        d = ex_.discriminant(st, v)
        want = 1 if kind == "Option" else 0
        ob(st, "%s::%s on a value that is always %s" % (kind, cname.split("::")[-1].split("<")[0], good), d.term == z3.BitVecVal(want, 64), fn)
        st.pc.append(d.term == z3.BitVecVal(want, 64))
        return symex.LazyPayload(ex_, st, v, good)[0]

    def m_caps_index(ex_, st, cname, args, dest_ty, fn):
        idx = args[1]
        if isinstance(idx, BV) and z3.is_bv_value(idx.term):
            k = idx.term.as_long()
            pat = (regex_of_closure or {}).get(fn.name)
            if k == 0:
                pass
            elif pat is None:
                ob(st, "captures[%d] of an unidentified regex participates in the match" % k, z3.BoolVal(False), fn)
            else:
                total, mand = mandatory_groups(pat)
                ob(st, "captures[%d] of /%s/ exists and always participates (groups=%d, mandatory=%s)" % (k, pat, total, sorted(mand)),
                   z3.BoolVal(k <= total and k in mand), fn)
        else:
            ob(st, "captures[i] with a computed index", z3.BoolVal(False), fn)
        return S.fresh(st, "cap")

    def m_slice_index(ex_, st, cname, args, dest_ty, fn):
        # Vec<T>/[T] indexing with usize: obligation idx < len (len is an observer)
        seq = args[0]
        idx = args[1]
        if isinstance(idx, BV):
            ln = ex_.fresh(st, "usize", ("len", ex_.deep_key(st, seq)))
            ob(st, "slice index < len", z3.ULT(idx.term, ln.term), fn)
        return NotImplemented

    ex.models += [
        (r"^<str as ToString>::to_string$|^<std::string::String as ToString>::to_string$|^<std::string::String as Clone>::clone$|String as From<&str>>::from$|^std::string::String::as_str$|^core::str::<impl str>::to_owned$|str as ToOwned>::to_owned$", m_identity_str),
        (r"^<std::string::String as Deref>::deref$|String as AsRef<str>>::as_ref$|String as Borrow<str>>::borrow$", m_deref_string),
        (r"PreProcessContext::replace_env_var$|PreProcessContext::replace_placeholders$|impl str>::replace::|Cow<'_, str> as ToString>::to_string$|impl str>::trim|impl str>::to_lowercase|std::env::var|String::from_utf8_lossy", m_fresh_str),
        (r"impl str>::starts_with::", m_starts_with),
        (r"as std::ops::Index<std::ops::RangeFrom<usize>>>::index$|as Index<RangeFrom<usize>>>::index$", m_index_from),
        (r"as std::ops::Index<std::ops::RangeTo<usize>>>::index$|as Index<RangeTo<usize>>>::index$|as std::ops::Index<std::ops::Range<usize>>>::index$|as Index<Range<usize>>>::index$", m_index_to),
        (r"impl str>::split_at$", m_split_at),
        (r"impl str>::len$|^std::string::String::len$", m_len),
        (r"impl str>::is_empty$|^std::string::String::is_empty$", m_is_empty),
        (r"Option::<.*>::(unwrap|expect)$|Result::<.*>::(unwrap|expect)$", m_unwrap),
        (r"Captures<'_> as Index<usize>>::index$|Captures<'_> as std::ops::Index<usize>>::index$", m_caps_index),
        (r"as Index<usize>>::index$|as std::ops::Index<usize>>::index$|as IndexMut<usize>>::index_mut$", m_slice_index),
    ]
    ex.type_hooks += [
        (r"^&?('\w+ )?(mut )?(str|std::string::String)$", lambda ex_, st, ty, key: S.fresh(st, str(key)[-12:])),
    ]


def regex_patterns(mc, fns_all):
    """pattern text of PreProcessContext's regex fields, read from the MIR of PreProcessContext::new"""
    fn = [f for f in fns_all if re.search(r"pre_process::<impl[^>]*>::new$", f.name)]
    pats = {}
    if len(fn) != 1:
        return pats
    ex = symex.Executor(fns_all, max_visits=2)
    paths = ex.run(fn[0])
    for p in paths:
        if p.kind != "return" or not isinstance(p.ret, Agg) or not p.ret.names:
            continue
        for name, v in zip(p.ret.names, p.ret.fields):
            k = ex.deep_key(p.state, v)
            m = re.search(r"Regex::new,\(const:\"(.*?)\"\)", k)
            if m and name not in pats:
                pats[name] = m.group(1).encode().decode("unicode_escape") if "\\\\" in m.group(1) else m.group(1)
    return pats


def analyse(out, mc, pending):
    want = r"pre_process::<impl[^>]*>::|^fn pre_process::|config::<impl[^>]*>::pre_process_emmyrc|fn process_and_dedup"
    fns = mc.fns("emmylua_code_analysis", want)
    pats = regex_patterns(mc, fns)
    out.extra_cov["regex_patterns"] = pats
    # which closure uses which regex field: the closure is passed to Regex::replace_all on that field
    clo_pat = {}
    fields = None
    try:
        import srcinfo
        fields = srcinfo.struct_fields("/repo/crates/emmylua_code_analysis/src/config/pre_process.rs", "PreProcessContext")
    except Exception:
        fields = []
    for host in ("replace_env_var", "replace_placeholders"):
        hf = [f for f in fns if re.search(r"pre_process::<impl[^>]*>::%s$" % host, f.name)]
        for f in hf:
            ex = symex.Executor(fns, max_visits=2)
            S = Strings(ex)
            install(ex, S)
            for p in ex.run(f):
                for e in p.trace:
                    if re.search(r"Regex::replace_all$", e.get("short", "")):
                        m = re.search(r"\(\(arg,1\),\*\),(\d+)\)", e["akeys"][0])
                        if m and fields and int(m.group(1)) < len(fields):
                            fname = fields[int(m.group(1))]
                            for c in [g for g in fns if g.name.startswith(f.name + "::{closure#")]:
                                clo_pat[c.name] = pats.get(fname)
    targets = [
        ("path/pre_process_path", r"pre_process::<impl[^>]*>::pre_process_path$", "expanding a configured path string (env vars, placeholders, ~, ./, relative)"),
        ("path/pre_process_workspace_path_item", r"pre_process::<impl[^>]*>::pre_process_workspace_path_item$", "expanding a library/package item and its ignoreDir entries"),
        ("path/env_var_closure", r"pre_process::<impl[^>]*>::replace_env_var::\{closure#0\}$", "substituting one $VAR match"),
        ("path/placeholder_closure", r"pre_process::<impl[^>]*>::replace_placeholders::\{closure#0\}$", "substituting one {placeholder} match"),
    ]
    for oid, rx, what in targets:
        cand = [f for f in fns if re.search(rx, f.name)]
        ob = out.add(Obligation(oid, "M", "no slice/index/unwrap in %s can panic, for every string (symbolic length and bytes, valid UTF-8) and every outcome of the callees" % what,
                                {"function": rx, "strings": "symbolic length, first %d bytes exact, UTF-8 validity" % NB}, [f.name for f in cand]))
        if len(cand) != 1:
            ob.status = "inconclusive"
            ob.detail = "%d candidates in MIR" % len(cand)
            continue
        fn = cand[0]
        ex = symex.Executor(fns, max_visits=3)
        ex.inline = [r"PreProcessContext::pre_process_path$"] if "workspace_path_item" in oid else []
        S = Strings(ex)
        install(ex, S, clo_pat)
        t0 = time.time()
        paths = ex.run(fn)
        out.extra_cov.setdefault("symbolic_execution", []).append(
            {"function": fn.name, "blocks": len(fn.blocks), "paths": len(paths), "seconds": round(time.time() - t0, 2), **ex.stats})
        fails = []
        cex = None
        n_ob = 0
        for p in paths:
            if p.kind not in ("return", "cut", "diverge"):
                fails.append("path kind %s %s" % (p.kind, p.info[:60]))
            for (whatob, cond, where, npc) in p.state.obligations:
                n_ob += 1
                r, m = mc.check(list(p.pc[:npc]) + [z3.Not(cond)], "panic")
                if r != "unsat":
                    fails.append("%s — can fail in %s" % (whatob, where.split("::")[-1]))
                    if cex is None and m is not None:
                        cex = witness_string(m, p)
        ob.witness = n_ob > 0 or len(paths) > 0
        ob.extra = {"panic_obligations_checked": n_ob, "paths": len(paths)}
        if cex:
            ob.extra["counterexample_string_prefix"] = cex
        if fails:
            ob.status = "pending"
            ob.detail = "; ".join(sorted(set(fails)))[:600]
            pending.append((ob, fails, cex))
        else:
            ob.status = "pass"


def witness_string(m, p):
    """bytes of the first string variable with a small length in the model"""
    best = None
    for d in m.decls():
        n = d.name()
        if n.startswith("len!"):
            ln = m[d].as_long()
            arr = [x for x in m.decls() if x.name() == "bytes!" + n[4:]]
            if ln <= 8 and arr:
                bs = []
                for i in range(ln):
                    v = m.eval(z3.Select(arr[0](), z3.BitVecVal(i, 64)), model_completion=True)
                    bs.append(v.as_long())
                cand = {"var": n[4:], "len": ln, "bytes": bs}
                if best is None or (bs and bs[0] == 0x7E):
                    best = cand
    return best


# ---------------------------------------------------------------------------------------------
# native replay

PATHS = ["~", "~/x", "~x", "~é", "~é/lua", "~日本", "./", "./x", ".", "", "é", "$", "${", "{", "}", "{}", "{env}", "{env:}", "{env:HOME}/x",
         "${workspaceFolder}", "{workspaceFolder}/a", "lib/{env}", "~/{env}/x", "$HOME", "$é", "{luarocks}", "a/{b", "${env:X}", "~\\x", "{é}"]
JSONS = ['{"a": 1, "a.b.c": 2}', '{"k": "x", "k.b": {"c": 1}}', '{"q": null, "q.r.s": true}', '{"m": 0, "m.n.o.p": 1}', '{"z": false, "z.y": {"x": {"w": 1}}}', '{"d": 1, "d.e.f": 2, "d.g.h": 3}',
         '[]', 'null', '42', '"oops"', '{"": true}', '{".": 1}', '{"": {"": []}}', '{"a": 1, "a.b": 2}', '{"a.b": 2, "a": 1}', '{"a": {"b": 1}, "a.b": 2}',
         '{"workspace": 3}', '{"workspace.library": "x"}', '{"diagnostics": {"disable": 5}}', '{"Lua.workspace.library": ["~"]}', '{"a..b": 1}', '{"a.": 1}', '{".a": 1}']


def replay_scenario(sc):
    res = mflow.native_replay(sc)
    print(json.dumps(res)[:2000])
    return 1 if res.get("panicked") else 0


def replay(out, pending):
    if not pending:
        return
    sc = {"kind": "config_load", "paths": PATHS, "jsons": JSONS}
    res = mflow.native_replay(sc)
    for ob, fails, cex in pending:
        if "error" in res:
            ob.status = "inconclusive"
            ob.detail = "%s — native replay failed: %s" % ("; ".join(sorted(set(fails)))[:300], res["error"])
            continue
        panics = res.get("panics", [])
        if not panics:
            ob.status = "inconclusive"
            ob.detail = ("solver found a possible panic (%s) but none of %d path strings / %d JSON documents panics in the real loader"
                         % ("; ".join(sorted(set(fails)))[:300], len(PATHS), len(JSONS)))
            continue
        rec = {"property": out.prop, "role": ob.role, "solver_findings": sorted(set(fails))[:6], "solver_witness": cex, "scenario": sc,
               "native": {"panics": panics}, "violates": True}
        path = mflow.write_replay(out, ob.oid.replace("/", "_"), rec)
        ob.counterexamples = [{"findings": sorted(set(fails))[:4], "panicking_inputs": panics[:5], "replay": path}]
        kf = match_known(out.prop, ob.role, ob.oid.split("/")[1], {"inputs": sorted(p["input"] for p in panics)})
        if kf:
            ob.status = "known"
            out.known("%s [%s]" % (kf["what"], ob.oid))
        else:
            ob.status = "violation"
            ob.detail = "%s — the real loader panics on %s" % ("; ".join(sorted(set(fails)))[:300], [p["input"] for p in panics][:5])
            out.violation(path, "(%s: panics on %s)" % (ob.oid, [p["input"] for p in panics][:4]))


def run(out):
    out.functions = ["PreProcessContext::pre_process_path", "pre_process_workspace_path_item", "replace_env_var closure", "replace_placeholders closure",
                     "PreProcessContext::new (regex patterns)", "flatten_config::to_emmyrc_json", "flatten_config::flatten_object"]
    out.bounds = {"strings": "every valid UTF-8 string: symbolic length (< 2^16) and bytes, the first %d bytes modelled exactly" % NB,
                  "callees": "env-var / placeholder substitution, str::replace, home_dir, Path::join return arbitrary strings / any Option outcome"}
    out.outside = ["the Lua configuration loader (a Lua VM)", "file reading / JSON parsing errors (serde_json)", "what the rebuilt object contains (only panic freedom of key flattening is claimed); keys with more dot separated segments than the bound",
                   "panics inside the regex crate itself"]
    out.assumptions = ["regex Captures: group 0 always exists; a group participates in every match iff it is not inside an optional/alternated construct of the pattern (syntactic analysis of the pattern constant read from PreProcessContext::new)",
                       "std string APIs: Index<RangeFrom/RangeTo/Range> and split_at panic exactly when the index is past the end or not on a char boundary; starts_with, len, is_empty exact",
                       "strings handed to and returned by the abstracted callees are valid UTF-8"]
    mc = mflow.MContext(out)
    pending = []
    try:
        analyse(out, mc, pending)
        import c31flat
        c31flat.analyse(out, mc, pending, Obligation, out.tier)
    except (symex.Unsupported, RuntimeError, KeyError, ValueError, IndexError, AttributeError) as e:
        import traceback
        out.fatal = "engine M could not encode the current source: %r\n%s" % (e, traceback.format_exc()[-1500:])
    replay(out, pending)
    mc.finish()
