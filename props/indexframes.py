"""Frame conditions of the index maintenance code (C09 reindex, C10 removal) — engine M."""
import os
import re
import time

import z3

import mflow
import srcinfo
import symex
from core import Obligation

CA = "/repo/crates/emmylua_code_analysis/src"


def lua_index_types():
    """types with `impl LuaIndex for T` in db_index (file -> type name)"""
    out = {}
    for root, _, files in os.walk(CA + "/db_index"):
        for f in files:
            if f.endswith(".rs"):
                p = os.path.join(root, f)
                for m in re.finditer(r"impl\s+LuaIndex\s+for\s+(\w+)", open(p).read()):
                    out[m.group(1)] = p
    return out


def dbindex_fields():
    src = open(CA + "/db_index/mod.rs").read()
    m = re.search(r"pub struct DbIndex\s*\{(.*?)\n\}", src, re.S)
    fields = []
    for line in m.group(1).splitlines():
        mm = re.match(r"\s*(?:pub(?:\([^)]*\))?\s+)?(\w+)\s*:\s*(.+?),\s*$", line)
        if mm:
            fields.append((mm.group(1), mm.group(2)))
    return fields


def touched_fields(ex, p, cell_key="(arg,1)"):
    """indices of the fields of *self (argument 1) that a path passes by &mut to a call, keyed by callee"""
    hits = []
    for e in p.trace:
        for a, k in zip(e["args"], e["akeys"]):
            if isinstance(a, symex.Ref) and a.mutable and a.root[0] == "heap" and a.path and a.path[0][0] == "field":
                hits.append((a.path[0][1], e["callee"], e))
    return hits


def delegation(out, mc, method, pending):
    """every LuaIndex-typed field of DbIndex receives `method` on every path of <DbIndex as LuaIndex>::method"""
    fns = mc.fns("emmylua_code_analysis", r"db_index::<impl[^>]*>::(clear|remove|remove_index)\(")
    fn = [f for f in fns if re.search(r"db_index::<impl[^>]*>::%s$" % method, f.name) and "DbIndex" in f.header]
    idx_types = lua_index_types()
    fields = dbindex_fields()
    must = [(i, n, t) for i, (n, t) in enumerate(fields) if re.sub(r"<.*", "", t).split("::")[-1] in idx_types and t != "DbIndex"]
    ob = out.add(Obligation("delegate/%s_reaches_every_index" % method, "M",
                            "<DbIndex as LuaIndex>::%s hands every one of the %d index fields (those whose type implements LuaIndex) to that index's own %s%s, on every path"
                            % (method, len(must), method, " with the same file id" if method == "remove" else ""),
                            {"function": "<DbIndex as LuaIndex>::%s" % method, "index_fields": [n for _, n, _ in must]}, [f.name for f in fn]))
    if len(fn) != 1:
        ob.status = "inconclusive"
        ob.detail = "%d candidates for DbIndex::%s" % (len(fn), method)
        return
    ex = symex.Executor(fns)
    paths = ex.run(fn[0])
    fails = []
    n = 0
    for p in paths:
        if p.kind != "return":
            fails.append("path kind %s" % p.kind)
            continue
        n += 1
        hits = touched_fields(ex, p)
        for i, name, ty in must:
            mine = [h for h in hits if h[0] == i and re.search(r"as db_index::traits::LuaIndex>::%s$|as LuaIndex>::%s$" % (method, method), h[1])]
            if not mine:
                fails.append("index field `%s` is not %s on some path (its facts survive)" % (name, "cleared" if method == "clear" else "told to remove the file"))
            elif method == "remove":
                for h in mine:
                    if h[2]["akeys"][1] != mflow.KeyB.argval(2).opq():
                        fails.append("index field `%s` is asked to remove a different file id" % name)
    ob.witness = n > 0
    if fails:
        ob.status = "pending"
        ob.detail = "; ".join(sorted(set(fails)))[:600]
        pending.append((ob, fails))
    else:
        ob.status = "pass"


def per_index_frames(out, mc, pending):
    """for every index type: each field that remove() may mutate is touched on every path of clear()"""
    idx_types = lua_index_types()
    fns = mc.fns("emmylua_code_analysis", r"<impl at crates/emmylua_code_analysis/src/db_index/[^>]*>::(clear|remove)\(")
    ob = out.add(Obligation("frames/clear_touches_what_remove_mutates", "M",
                            "for each of the index types: every field of the index that some path of its remove(file) mutates (so it holds per-file facts) is mutated on EVERY path of its clear()",
                            {"index_types": sorted(idx_types)}, []))
    fails = []
    done = 0
    detail = {}
    for ty, src in sorted(idx_types.items()):
        if ty == "DbIndex":
            continue
        rem = [f for f in fns if f.name.endswith("::remove") and f.args and symex.short_type(f.args[0][1]) == ty and len(f.args) == 2]
        clr = [f for f in fns if f.name.endswith("::clear") and f.args and symex.short_type(f.args[0][1]) == ty and len(f.args) == 1]
        if len(rem) != 1 or len(clr) != 1:
            fails.append("%s: remove/clear bodies not found (%d/%d)" % (ty, len(rem), len(clr)))
            continue
        # may-mutate set of remove: syntactic over its MIR (every &mut borrow of / assignment to a field of *self)
        may = set()
        for b in rem[0].blocks.values():
            if b.cleanup:
                continue
            for s in b.stmts + [b.term or ""]:
                for m in re.finditer(r"&mut \(\(\*_1\)\.(\d+):", s):
                    may.add(int(m.group(1)))
                m = re.match(r"^\(\(\*_1\)\.(\d+):[^=]*\) = ", s)
                if m:
                    may.add(int(m.group(1)))
        # must-mutate set of clear: intersection over its paths
        try:
            ex = symex.Executor(fns, max_visits=symex.visits(3))
            paths = ex.run(clr[0])
        except symex.Unsupported as e:
            fails.append("%s::clear: encoding gap %s" % (ty, str(e)[:100]))
            continue
        must = None
        for p in paths:
            if p.kind not in ("return",):
                continue
            t = {h[0] for h in touched_fields(ex, p)}
            # direct assignment `self.f = ...` shows as an overwritten child of the self cell
            selfv = p.state.heap.get(0)
            if isinstance(selfv, symex.Opaque):
                for k in selfv.over:
                    if k[0] == "field":
                        t.add(k[1])
            must = t if must is None else (must & t)
        must = must or set()
        try:
            names = srcinfo.struct_fields(src, ty)
        except Exception:
            names = []
        missing = sorted(may - must)
        detail[ty] = {"remove_may_mutate": sorted(may), "clear_always_mutates": sorted(must)}
        if missing:
            # a field clear() leaves alone only matters for the property (observable results) if the index ever
            # ENUMERATES it (iter/values/keys/len/retain/drain...): entries that are only looked up by keys taken
            # from freshly rebuilt tables cannot surface.  The enumeration test is syntactic over every method of the type.
            rel = os.path.relpath(src, "/repo")
            meth = mc.fns("emmylua_code_analysis", r"<impl at %s[^>]*>::" % re.escape(rel))
            enumerated = set()
            for f in meth:
                if not f.args or symex.short_type(f.args[0][1]) != ty:
                    continue
                fieldref = {}
                for b in f.blocks.values():
                    for st_ in b.stmts:
                        m = re.match(r"^(_\d+) = &(?:mut )?\(\(\*_1\)\.(\d+):", st_)
                        if m:
                            fieldref[m.group(1)] = int(m.group(2))
                    t = b.term or ""
                    m = re.search(r"::(iter|iter_mut|values|values_mut|keys|len|is_empty|retain|drain|into_iter|into_values|into_keys)(::<[^(]*)?\((?:move |copy )?(_\d+)", t)
                    if m and m.group(3) in fieldref:
                        enumerated.add(fieldref[m.group(3)])
            detail[ty]["enumerated_fields"] = sorted(enumerated)
            for i in missing:
                nm = names[i] if i < len(names) else i
                fty = field_types(src, ty).get(nm, "")
                mk = re.match(r"^HashMap<\s*(\w+)", fty)
                positional = bool(mk) and mk.group(1) in file_tagged_structs()
                if i in enumerated:
                    fails.append("%s: field %s is mutated by remove(file), enumerated by the index, but not cleared on every path of clear()" % (ty, nm))
                elif not positional:
                    # looked up by a key that outlives a file (a type name, a string): a stale entry is found again after the rebuild
                    fails.append("%s: field %s (%s) holds per-file facts under keys that survive the rebuild, but is not cleared on every path of clear()" % (ty, nm, fty))
                else:
                    # keys carry file id + position: re-analysing the same files re-creates exactly these keys and overwrites the entries
                    detail[ty].setdefault("uncleared_but_keyed_by_file_position", []).append(nm)
        done += 1
    ob.witness = done > 0
    ob.extra = {"index_types_checked": done, "sets": detail}
    if fails:
        ob.status = "pending"
        ob.detail = "; ".join(sorted(set(fails)))[:700]
        pending.append((ob, fails))
    else:
        ob.status = "pass"


def _may_mutate(fn, fns, ty, seen=None):
    """fields of *self (argument 1) that some statement of fn borrows mutably or assigns, following calls that
    hand the whole `self` on to another method of the same type"""
    seen = seen if seen is not None else set()
    if fn.name in seen:
        return set()
    seen.add(fn.name)
    may = set()
    selfs = {"_1"}
    for b in fn.blocks.values():
        for s in b.stmts:
            m = re.match(r"^(_\d+) = &mut \(\*_1\);$", s)
            if m:
                selfs.add(m.group(1))
    for b in fn.blocks.values():
        if b.cleanup:
            continue
        for s in b.stmts + [b.term or ""]:
            for m in re.finditer(r"&mut \(\(\*_1\)\.(\d+):", s):
                may.add(int(m.group(1)))
            m = re.match(r"^\(\(\*_1\)\.(\d+):[^=]*\) = ", s)
            if m:
                may.add(int(m.group(1)))
        t = b.term or ""
        m = re.match(r"^.*? = ([^()]*?::)?(\w+)\((?:move |copy )(_\d+)[,)]", t)
        if m and m.group(3) in selfs:
            for g in fns:
                if g.name.endswith("::" + m.group(2)) and g.args and symex.short_type(g.args[0][1]) == ty and g.args[0][1].strip().startswith("&mut"):
                    may |= _may_mutate(g, fns, ty, seen)
    return may


def remove_frames(out, mc, pending):
    """C10: for every index type, every table that clear() always empties (so it holds facts that came from files) is
    reachable for mutation from remove(file) — a table that remove never touches keeps the removed file's entries"""
    idx_types = lua_index_types()
    fns_cr = mc.fns("emmylua_code_analysis", r"<impl at crates/emmylua_code_analysis/src/db_index/[^>]*>::(clear|remove)\(")
    ob = out.add(Obligation("frames/remove_touches_what_clear_empties", "M",
                            "for each index type: every non-scalar field that EVERY path of clear() mutates is mutated by some statement reachable from remove(file) "
                            "(directly, in a closure, or in a method of the same type that receives self)",
                            {"index_types": sorted(idx_types)}, []))
    fails = []
    detail = {}
    done = 0
    for ty, src in sorted(idx_types.items()):
        if ty == "DbIndex":
            continue
        rel = os.path.relpath(src, "/repo")
        meth = mc.fns("emmylua_code_analysis", r"<impl at %s[^>]*>::" % re.escape(rel))
        rem = [f for f in meth if f.name.endswith("::remove") and f.args and symex.short_type(f.args[0][1]) == ty and len(f.args) == 2]
        clr = [f for f in fns_cr if f.name.endswith("::clear") and f.args and symex.short_type(f.args[0][1]) == ty and len(f.args) == 1]
        if len(rem) != 1 or len(clr) != 1:
            fails.append("%s: remove/clear bodies not found (%d/%d)" % (ty, len(rem), len(clr)))
            continue
        may = _may_mutate(rem[0], meth, ty)
        try:
            ex = symex.Executor(fns_cr, max_visits=symex.visits(3))
            paths = ex.run(clr[0])
        except symex.Unsupported as e:
            fails.append("%s::clear: encoding gap %s" % (ty, str(e)[:100]))
            continue
        must = None
        for p in paths:
            if p.kind != "return":
                continue
            t = {h[0] for h in touched_fields(ex, p)}
            selfv = p.state.heap.get(0)
            if isinstance(selfv, symex.Opaque):
                for k in selfv.over:
                    if k[0] == "field":
                        t.add(k[1])
            must = t if must is None else (must & t)
        must = must or set()
        names = srcinfo.struct_fields(src, ty)
        body = srcinfo._body(srcinfo._strip_comments(open(src).read()), "struct", ty) or ""
        ftypes = {}
        for it in srcinfo._split_items(body):
            m = re.match(r"^(?:pub(?:\([^)]*\))?\s+)?(\w+)\s*:\s*(.+)$", re.sub(r"#\[[^\]]*\]", "", it).strip(), re.S)
            if m:
                ftypes[m.group(1)] = m.group(2).strip()
        scalars = {i for i, n in enumerate(names) if re.match(r"^(u8|u16|u32|u64|usize|i32|i64|bool)$", ftypes.get(n, ""))}
        missing = sorted(must - may - scalars)
        detail[ty] = {"clear_always_mutates": sorted(must), "remove_can_mutate": sorted(may), "scalar_fields": sorted(scalars)}
        for i in missing:
            fails.append("%s: table `%s` is emptied by clear() but nothing reachable from remove(file) ever mutates it" % (ty, names[i] if i < len(names) else i))
        done += 1
    ob.witness = done > 0
    ob.extra = {"index_types_checked": done, "sets": detail}
    if fails:
        ob.status = "pending"
        ob.detail = "; ".join(sorted(set(fails)))[:700]
        pending.append((ob, fails))
    else:
        ob.status = "pass"


def analysis_glue(out, mc, which, pending):
    """EmmyLuaAnalysis::remove_file_by_uri / reindex and LuaCompilation glue"""
    fns = mc.fns("emmylua_code_analysis", r"lib\.rs[^>]*>::(remove_file_by_uri|reindex)\(|compilation::<impl[^>]*>::(remove_index|clear_index)\(|db_index::<impl[^>]*>::remove_index\(")
    if which == "remove":
        ob = out.add(Obligation("glue/removed_file_leaves_vfs_and_indexes", "M",
                                "remove_file_by_uri: when the VFS knew the file, the index removal is requested for exactly that file id (and the id is returned); "
                                "LuaCompilation::remove_index forwards the ids to DbIndex::remove_index",
                                {"functions": "EmmyLuaAnalysis::remove_file_by_uri, LuaCompilation::remove_index"}, []))
        fn = [f for f in fns if f.name.endswith("::remove_file_by_uri")]
        fails = []
        n = 0
        if len(fn) != 1:
            ob.status = "inconclusive"
            ob.detail = "remove_file_by_uri not found"
            return
        ex = symex.Executor(fns, max_visits=symex.visits(2))
        for p in ex.run(fn[0]):
            if p.kind != "return":
                fails.append("path kind %s" % p.kind)
                continue
            rf = mflow.find_event(p, r"Vfs::remove_file$")
            ri = [e for e in p.trace if re.search(r"LuaCompilation::remove_index$", e.get("short", ""))]
            if rf is None:
                fails.append("the VFS is not asked to remove the file")
                continue
            d = ex.discriminant(p.state, rf["result"])
            if mc.implied_eq(p, d.term, 1):
                n += 1
                if len(ri) != 1:
                    fails.append("file known to the VFS but index removal requested %d times" % len(ri))
                else:
                    idk = symex.kfmt(rf["result"].k) if isinstance(rf["result"], symex.Opaque) else "?"
                    arrays = [e for e in p.trace if e["callee"] == "<array>" and idk in e["akeys"][0]]
                    if idk not in ri[0]["akeys"][1] and not arrays:
                        fails.append("index removal is requested for something else than the removed file's id")
                if not (isinstance(p.ret, symex.Agg) and p.ret.variant == "Some"):
                    fails.append("removed file id is not returned")
        cf = [f for f in fns if re.search(r"compilation::<impl[^>]*>::remove_index$", f.name)]
        if len(cf) == 1:
            for p in symex.Executor(fns, max_visits=symex.visits(2)).run(cf[0]):
                if p.kind == "return" and not [e for e in p.trace if re.search(r"DbIndex::remove_index$", e.get("short", ""))]:
                    fails.append("LuaCompilation::remove_index does not forward to DbIndex::remove_index")
        else:
            fails.append("LuaCompilation::remove_index not found")
        ob.witness = n > 0
    else:
        ob = out.add(Obligation("glue/reindex_clears_then_rebuilds_from_all_files", "M",
                                "reindex: the index is cleared (LuaCompilation::clear_index -> DbIndex::clear) before update_index runs, and update_index receives the list of ALL file ids the VFS holds",
                                {"functions": "EmmyLuaAnalysis::reindex, LuaCompilation::clear_index"}, []))
        fn = [f for f in fns if f.name.endswith("::reindex")]
        fails = []
        n = 0
        if len(fn) != 1:
            ob.status = "inconclusive"
            ob.detail = "reindex not found"
            return
        ex = symex.Executor(fns, max_visits=symex.visits(2))
        for p in ex.run(fn[0]):
            if p.kind != "return":
                fails.append("path kind %s" % p.kind)
                continue
            n += 1
            ids = mflow.find_event(p, r"Vfs::get_all_file_ids$")
            clr = [e for e in p.trace if re.search(r"LuaCompilation::clear_index$", e.get("short", ""))]
            upd = [e for e in p.trace if re.search(r"LuaCompilation::update_index$", e.get("short", ""))]
            if len(clr) != 1 or len(upd) != 1 or ids is None:
                fails.append("reindex does not perform exactly one clear_index, one update_index and one get_all_file_ids")
                continue
            if p.trace.index(clr[0]) > p.trace.index(upd[0]):
                fails.append("update_index runs before the index is cleared")
            if p.trace.index(ids) > p.trace.index(clr[0]) and False:
                pass
            if ex.deep_key(p.state, ids["result"]) != upd[0]["akeys"][1]:
                fails.append("update_index does not receive the VFS's list of all file ids")
        cf = [f for f in fns if re.search(r"compilation::<impl[^>]*>::clear_index$", f.name)]
        if len(cf) == 1:
            for p in symex.Executor(fns, max_visits=symex.visits(2)).run(cf[0]):
                if p.kind == "return" and not [e for e in p.trace if re.search(r"LuaIndex>::clear$|DbIndex::clear$", e["callee"])]:
                    fails.append("LuaCompilation::clear_index does not clear the DbIndex")
        else:
            fails.append("LuaCompilation::clear_index not found")
        ob.witness = n > 0
    if fails:
        ob.status = "pending"
        ob.detail = "; ".join(sorted(set(fails)))[:600]
        pending.append((ob, fails))
    else:
        ob.status = "pass"


_TAGGED = None


def file_tagged_structs():
    """structs of the crate that carry the id of the file they come from (`file_id: FileId`), plus FileId itself"""
    global _TAGGED
    if _TAGGED is None:
        tagged = {"FileId"}
        for root, _, files in os.walk(CA):
            for f in files:
                if f.endswith(".rs"):
                    src = srcinfo._strip_comments(open(os.path.join(root, f)).read())
                    for m in re.finditer(r"pub struct (\w+)(?:<[^>]*>)?\s*\{", src):
                        b = srcinfo._body(src, "struct", m.group(1)) or ""
                        if re.search(r"\bfile_id\s*:\s*FileId", b):
                            tagged.add(m.group(1))
        _TAGGED = tagged
    return _TAGGED


def field_types(src, ty):
    body = srcinfo._body(srcinfo._strip_comments(open(src).read()), "struct", ty) or ""
    out = {}
    for it in srcinfo._split_items(body):
        m = re.match(r"^(?:pub(?:\([^)]*\))?\s+)?(\w+)\s*:\s*(.+)$", re.sub(r"\s+", " ", re.sub(r"#\[[^\]]*\]", "", it)).strip())
        if m:
            out[m.group(1)] = m.group(2).strip()
    return out


def _consts(term):
    seen, out, todo = set(), [], [term]
    while todo:
        t = todo.pop()
        if t.get_id() in seen:
            continue
        seen.add(t.get_id())
        if z3.is_const(t) and t.decl().kind() == z3.Z3_OP_UNINTERPRETED:
            out.append(t)
        todo.extend(t.children())
    return out


def _install_fileid_eq(ex):
    def m_eq(ex_, st, cname, args, dest_ty, fn):
        a = ex_.get_path(st, ex_.deref(st, args[0]), [("field", 0, "u32")])
        b = ex_.get_path(st, ex_.deref(st, args[1]), [("field", 0, "u32")])
        if not (isinstance(a, symex.BV) and isinstance(b, symex.BV)):
            return NotImplemented
        return symex.BoolV(a.term != b.term if cname.endswith("::ne") else a.term == b.term)
    ex.models = [(r"^<(vfs::)?file_id::FileId as PartialEq>::(eq|ne)$", m_eq)] + ex.models


def remove_prunes(out, mc, pending):
    """C10: tables whose entries are SHARED between files (key is not a file, value is a collection of file-tagged items):
    remove(file) must prune them with a retain whose predicate keeps exactly the items of other files."""
    idx_types = lua_index_types()
    tagged = file_tagged_structs()
    ob1 = out.add(Obligation("prune/retain_predicates_filter_by_file", "M",
                             "every closure in an index's remove(file) that compares file ids returns true exactly for items whose file id differs from the removed file "
                             "(solver: closure(item) <=> item.file_id != file_id, for all 32-bit ids)",
                             {"file_ids": "all u32 pairs"}, []))
    ob2 = out.add(Obligation("prune/shared_tables_are_pruned_by_file", "M",
                             "for every index table HashMap<K, Vec|HashSet<X>> with K not a file and X file-tagged (has a file_id, or is a FileId): some path of remove(file) "
                             "calls retain on data reached from that table with one of the verified predicates (directly or through a wrapping retain closure)",
                             {"loops": "2 visits per loop head"}, []))
    fails1, fails2 = [], []
    verified_total = 0
    detail = {}
    t0 = time.time()
    for ty, src in sorted(idx_types.items()):
        if ty == "DbIndex":
            continue
        rel = os.path.relpath(src, "/repo")
        meth = mc.fns("emmylua_code_analysis", r"<impl at %s[^>]*>::" % re.escape(rel))
        rem = [f for f in meth if f.name.endswith("::remove") and f.args and symex.short_type(f.args[0][1]) == ty and len(f.args) == 2]
        if len(rem) != 1:
            fails2.append("%s: remove body not found" % ty)
            continue
        clos = [f for f in meth if f.name.startswith(rem[0].name + "::{closure")]
        verified = set()
        for c in clos:
            if not any(re.search(r"FileId as PartialEq>::(eq|ne)", b.term or "") for b in c.blocks.values()):
                continue
            ex = symex.Executor(meth, max_visits=symex.visits(2))
            _install_fileid_eq(ex)
            paths = ex.run(c)
            ok = len(paths) == 1 and paths[0].kind == "return" and isinstance(paths[0].ret, symex.BoolV)
            if ok:
                r = paths[0].ret.term
                cs = _consts(r)
                org = {str(x): ex.origin.get(x.decl().name(), "") for x in cs}
                cap = [x for x in cs if "(arg,1)" in org[str(x)]]
                item = [x for x in cs if "(arg,1)" not in org[str(x)]]
                if len(cs) == 2 and len(cap) == 1 and len(item) == 1:
                    res, _ = mc.check(list(paths[0].pc) + [z3.Not(r == (item[0] != cap[0]))], "retain_pred")
                    ok = res == "unsat"
                else:
                    ok = False
            ob1.functions.append(c.name)
            if ok:
                verified.add(c.name)
                verified_total += 1
            else:
                fails1.append("%s: predicate %s does not keep exactly the items of other files" % (ty, c.name.split("::remove")[-1]))
        # which tables need pruning
        body = srcinfo._body(srcinfo._strip_comments(open(src).read()), "struct", ty) or ""
        names = srcinfo.struct_fields(src, ty)
        needs = []
        for it in srcinfo._split_items(body):
            m = re.match(r"^(?:pub(?:\([^)]*\))?\s+)?(\w+)\s*:\s*HashMap<(.+)>$", re.sub(r"\s+", " ", re.sub(r"#\[[^\]]*\]", "", it)).strip())
            if not m:
                continue
            kv = srcinfo._split_items(m.group(2))
            if len(kv) != 2 or "FileId" in kv[0] or "InFiled" in kv[0]:
                continue
            mv = re.match(r"^(?:Vec|HashSet)<\s*(\w+)", kv[1].strip())
            if mv and mv.group(1) in tagged:
                needs.append((names.index(m.group(1)), m.group(1), kv[1].strip()))
        detail[ty] = {"verified_predicates": sorted(v.split("::remove")[-1] for v in verified), "shared_tables": [n for _, n, _ in needs]}
        if not needs:
            continue
        ex = symex.Executor(meth, max_visits=symex.visits(2))
        paths = ex.run(rem[0])
        pruned = set()
        for p in paths:
            for e in p.trace:
                if not re.search(r"::retain(::<.*)?$", e["callee"]) or len(e["args"]) < 2:
                    continue
                cf = ex.closure_fn(e["args"][1])
                if cf is None:
                    continue
                good = cf.name in verified or any(v.startswith(cf.name + "::{closure") for v in verified)
                if not good:
                    continue
                for i, n, _ in needs:
                    if "(((arg,1),*),%d)" % i in e["akeys"][0]:
                        pruned.add(i)
        for i, n, vt in needs:
            if i not in pruned:
                fails2.append("%s: entries of `%s` (%s) are shared between files but remove(file) never filters them by file" % (ty, n, vt))
    ob1.witness = verified_total > 0
    ob2.witness = any(d["shared_tables"] for d in detail.values())
    ob1.extra = {"verified_predicates": verified_total}
    ob2.extra = {"tables": detail}
    ob1.solver_s = ob2.solver_s = round(time.time() - t0, 2)
    for ob, fails in ((ob1, fails1), (ob2, fails2)):
        if fails:
            ob.status = "pending"
            ob.detail = "; ".join(sorted(set(fails)))[:700]
            pending.append((ob, fails))
        else:
            ob.status = "pass"


def update_glue(out, mc, pending):
    """EmmyLuaAnalysis::update_file_by_uri / update_remote_file_by_uri: whatever the new text is, the file's old facts are
    dropped (remove_index of exactly the id the VFS returned) and, when there is a text, the file is analysed again"""
    fns = mc.fns("emmylua_code_analysis", r"lib\.rs[^>]*>::(update_file_by_uri|update_remote_file_by_uri)\(")
    ob = out.add(Obligation("glue/update_drops_old_facts_then_reanalyses", "M",
                            "update_file_by_uri / update_remote_file_by_uri: on every path the text reaches the VFS unchanged, remove_index is requested for exactly the "
                            "file id the VFS returned, and update_index for the same id follows iff a text was given (None = the file is gone: nothing is re-added)",
                            {"functions": "EmmyLuaAnalysis::update_file_by_uri, update_remote_file_by_uri", "paths": "all"}, [f.name for f in fns]))
    fails = []
    seen = 0
    for nm in ("update_file_by_uri", "update_remote_file_by_uri"):
        fn = [f for f in fns if f.name.endswith("::" + nm)]
        if len(fn) != 1:
            fails.append("%s: %d candidates" % (nm, len(fn)))
            continue
        ex = symex.Executor(fns, max_visits=symex.visits(2))
        kinds = set()
        for p in ex.run(fn[0]):
            if p.kind != "return":
                fails.append("%s: path kind %s" % (nm, p.kind))
                continue
            names = [e.get("short", e["callee"]) for e in p.trace]
            sets = [i for i, n in enumerate(names) if re.search(r"Vfs::set_(remote_)?file_content$", n)]
            if len(sets) != 1:
                fails.append("%s: the VFS content is set %d times on a path" % (nm, len(sets)))
                continue
            S = p.trace[sets[0]]
            if S["akeys"][2] != mflow.KeyB.argval(3).opq():
                fails.append("%s: the text handed to the VFS is not the caller's text" % nm)
            idk = symex.kfmt(S["result"].k) if isinstance(S["result"], symex.Opaque) else "?"
            rem = [i for i, n in enumerate(names) if re.search(r"LuaCompilation::remove_index$", n)]
            upd = [i for i, n in enumerate(names) if re.search(r"LuaCompilation::update_index$", n)]

            def array_before(i):
                arr = [j for j in range(i) if p.trace[j]["callee"] == "<array>"]
                return bool(arr) and idk in p.trace[arr[-1]]["akeys"][0]
            if len(rem) != 1 or rem[0] < sets[0] or not array_before(rem[0]):
                fails.append("%s: the old facts of the file are not dropped exactly once, for the id the VFS returned, after the content changed" % nm)
                continue
            d = ex.discriminant(p.state, symex.Opaque("std::option::Option<std::string::String>", ("arg", 3)))
            has_text = mc.implied_eq(p, d.term, 1)
            if not has_text and not mc.implied_eq(p, d.term, 0):
                fails.append("%s: a path does not depend on whether a text was given" % nm)
            kinds.add(has_text)
            if has_text:
                if len(upd) != 1 or upd[0] < rem[0] or not array_before(upd[0]):
                    fails.append("%s: a text was given but the file is not analysed again (once, after the removal, same id)" % nm)
            elif upd:
                fails.append("%s: no text (file gone) but the file is analysed again" % nm)
            seen += 1
        if kinds != {True, False}:
            fails.append("%s: expected one path with and one without a text, got %s" % (nm, sorted(kinds)))
    ob.witness = seen > 0
    if fails:
        ob.status = "pending"
        ob.detail = "; ".join(sorted(set(fails)))[:600]
        pending.append((ob, fails))
    else:
        ob.status = "pass"


# native replay scenarios (vreplay kind "history")
def replay(out, pending, scenarios):
    if not pending:
        return
    res = mflow.native_replay({"kind": "history", "scenarios": scenarios})
    for ob, fails in pending:
        if "error" in res:
            ob.status = "inconclusive"
            ob.detail = "%s — native replay failed: %s" % ("; ".join(sorted(set(fails)))[:300], res["error"])
            continue
        bad = [r for r in res.get("results", []) if r.get("violates")]
        if not bad:
            ob.status = "inconclusive"
            ob.detail = ("solver found a frame-condition gap (%s) but none of the %d native histories shows a stale fact"
                         % ("; ".join(sorted(set(fails)))[:300], len(res.get("results", []))))
            continue
        rec = {"property": out.prop, "role": ob.role, "solver_findings": sorted(set(fails))[:6], "scenario": {"kind": "history", "scenarios": scenarios},
               "native": bad[:3], "violates": True}
        path = mflow.write_replay(out, ob.oid.replace("/", "_"), rec)
        from core import match_known
        kf = match_known(out.prop, ob.role, bad[0].get("id", ""), {})
        ob.counterexamples = [{"findings": sorted(set(fails))[:3], "native_history": bad[0].get("id"), "replay": path}]
        if kf:
            ob.status = "known"
            out.known("%s [%s]" % (kf["what"], ob.oid))
        else:
            ob.status = "violation"
            ob.detail = "%s — confirmed natively by history %s: %s" % ("; ".join(sorted(set(fails)))[:300], bad[0].get("id"), str(bad[0].get("why"))[:200])
            out.violation(path, "(%s: %s)" % (ob.oid, bad[0].get("id")))
