"""Frame conditions of the index maintenance code (C09 reindex, C10 removal) — engine M."""
import os
import re
import time

import z3

import mflow
import srcinfo
import symex
from core import Obligation

CA = "/repo/crates/emmylua_code_analysis/src"


def lua_index_types():
    """types with `impl LuaIndex for T` in db_index (file -> type name)"""
    out = {}
    for root, _, files in os.walk(CA + "/db_index"):
        for f in files:
            if f.endswith(".rs"):
                p = os.path.join(root, f)
                for m in re.finditer(r"impl\s+LuaIndex\s+for\s+(\w+)", open(p).read()):
                    out[m.group(1)] = p
    return out


def dbindex_fields():
    src = open(CA + "/db_index/mod.rs").read()
    m = re.search(r"pub struct DbIndex\s*\{(.*?)\n\}", src, re.S)
    fields = []
    for line in m.group(1).splitlines():
        mm = re.match(r"\s*(?:pub(?:\([^)]*\))?\s+)?(\w+)\s*:\s*(.+?),\s*$", line)
        if mm:
            fields.append((mm.group(1), mm.group(2)))
    return fields


def touched_fields(ex, p, cell_key="(arg,1)"):
    """indices of the fields of *self (argument 1) that a path passes by &mut to a call, keyed by callee"""
    hits = []
    for e in p.trace:
        for a, k in zip(e["args"], e["akeys"]):
            if isinstance(a, symex.Ref) and a.mutable and a.root[0] == "heap" and a.path and a.path[0][0] == "field":
                hits.append((a.path[0][1], e["callee"], e))
    return hits


def delegation(out, mc, method, pending):
    """every LuaIndex-typed field of DbIndex receives `method` on every path of <DbIndex as LuaIndex>::method"""
    fns = mc.fns("emmylua_code_analysis", r"db_index::<impl[^>]*>::(clear|remove|remove_index)\(")
    fn = [f for f in fns if re.search(r"db_index::<impl[^>]*>::%s$" % method, f.name) and "DbIndex" in f.header]
    idx_types = lua_index_types()
    fields = dbindex_fields()
    must = [(i, n, t) for i, (n, t) in enumerate(fields) if re.sub(r"<.*", "", t).split("::")[-1] in idx_types and t != "DbIndex"]
    ob = out.add(Obligation("delegate/%s_reaches_every_index" % method, "M",
                            "<DbIndex as LuaIndex>::%s hands every one of the %d index fields (those whose type implements LuaIndex) to that index's own %s%s, on every path"
                            % (method, len(must), method, " with the same file id" if method == "remove" else ""),
                            {"function": "<DbIndex as LuaIndex>::%s" % method, "index_fields": [n for _, n, _ in must]}, [f.name for f in fn]))
    if len(fn) != 1:
        ob.status = "inconclusive"
        ob.detail = "%d candidates for DbIndex::%s" % (len(fn), method)
        return
    ex = symex.Executor(fns)
    paths = ex.run(fn[0])
    fails = []
    n = 0
    for p in paths:
        if p.kind != "return":
            fails.append("path kind %s" % p.kind)
            continue
        n += 1
        hits = touched_fields(ex, p)
        for i, name, ty in must:
            mine = [h for h in hits if h[0] == i and re.search(r"as db_index::traits::LuaIndex>::%s$|as LuaIndex>::%s$" % (method, method), h[1])]
            if not mine:
                fails.append("index field `%s` is not %s on some path (its facts survive)" % (name, "cleared" if method == "clear" else "told to remove the file"))
            elif method == "remove":
                for h in mine:
                    if h[2]["akeys"][1] != mflow.KeyB.argval(2).opq():
                        fails.append("index field `%s` is asked to remove a different file id" % name)
    ob.witness = n > 0
    if fails:
        ob.status = "pending"
        ob.detail = "; ".join(sorted(set(fails)))[:600]
        pending.append((ob, fails))
    else:
        ob.status = "pass"


def per_index_frames(out, mc, pending):
    """for every index type: each field that remove() may mutate is touched on every path of clear()"""
    idx_types = lua_index_types()
    fns = mc.fns("emmylua_code_analysis", r"<impl at crates/emmylua_code_analysis/src/db_index/[^>]*>::(clear|remove)\(")
    ob = out.add(Obligation("frames/clear_touches_what_remove_mutates", "M",
                            "for each of the index types: every field of the index that some path of its remove(file) mutates (so it holds per-file facts) is mutated on EVERY path of its clear()",
                            {"index_types": sorted(idx_types)}, []))
    fails = []
    done = 0
    detail = {}
    for ty, src in sorted(idx_types.items()):
        if ty == "DbIndex":
            continue
        rem = [f for f in fns if f.name.endswith("::remove") and f.args and symex.short_type(f.args[0][1]) == ty and len(f.args) == 2]
        clr = [f for f in fns if f.name.endswith("::clear") and f.args and symex.short_type(f.args[0][1]) == ty and len(f.args) == 1]
        if len(rem) != 1 or len(clr) != 1:
            fails.append("%s: remove/clear bodies not found (%d/%d)" % (ty, len(rem), len(clr)))
            continue
        # may-mutate set of remove: syntactic over its MIR (every &mut borrow of / assignment to a field of *self)
        may = set()
        for b in rem[0].blocks.values():
            if b.cleanup:
                continue
            for s in b.stmts + [b.term or ""]:
                for m in re.finditer(r"&mut \(\(\*_1\)\.(\d+):", s):
                    may.add(int(m.group(1)))
                m = re.match(r"^\(\(\*_1\)\.(\d+):[^=]*\) = ", s)
                if m:
                    may.add(int(m.group(1)))
        # must-mutate set of clear: intersection over its paths
        try:
            ex = symex.Executor(fns, max_visits=3)
            paths = ex.run(clr[0])
        except symex.Unsupported as e:
            fails.append("%s::clear: encoding gap %s" % (ty, str(e)[:100]))
            continue
        must = None
        for p in paths:
            if p.kind not in ("return",):
                continue
            t = {h[0] for h in touched_fields(ex, p)}
            # direct assignment `self.f = ...` shows as an overwritten child of the self cell
            selfv = p.state.heap.get(0)
            if isinstance(selfv, symex.Opaque):
                for k in selfv.over:
                    if k[0] == "field":
                        t.add(k[1])
            must = t if must is None else (must & t)
        must = must or set()
        try:
            names = srcinfo.struct_fields(src, ty)
        except Exception:
            names = []
        missing = sorted(may - must)
        detail[ty] = {"remove_may_mutate": sorted(may), "clear_always_mutates": sorted(must)}
        if missing:
            # a field clear() leaves alone only matters for the property (observable results) if the index ever
            # ENUMERATES it (iter/values/keys/len/retain/drain...): entries that are only looked up by keys taken
            # from freshly rebuilt tables cannot surface.  The enumeration test is syntactic over every method of the type.
            rel = os.path.relpath(src, "/repo")
            meth = mc.fns("emmylua_code_analysis", r"<impl at %s[^>]*>::" % re.escape(rel))
            enumerated = set()
            for f in meth:
                if not f.args or symex.short_type(f.args[0][1]) != ty:
                    continue
                fieldref = {}
                for b in f.blocks.values():
                    for st_ in b.stmts:
                        m = re.match(r"^(_\d+) = &(?:mut )?\(\(\*_1\)\.(\d+):", st_)
                        if m:
                            fieldref[m.group(1)] = int(m.group(2))
                    t = b.term or ""
                    m = re.search(r"::(iter|iter_mut|values|values_mut|keys|len|is_empty|retain|drain|into_iter|into_values|into_keys)(::<[^(]*)?\((?:move |copy )?(_\d+)", t)
                    if m and m.group(3) in fieldref:
                        enumerated.add(fieldref[m.group(3)])
            detail[ty]["enumerated_fields"] = sorted(enumerated)
            for i in missing:
                nm = names[i] if i < len(names) else i
                if i in enumerated:
                    fails.append("%s: field %s is mutated by remove(file), enumerated by the index, but not cleared on every path of clear()" % (ty, nm))
                else:
                    detail[ty].setdefault("uncleared_but_only_looked_up_by_key", []).append(nm)
        done += 1
    ob.witness = done > 0
    ob.extra = {"index_types_checked": done, "sets": detail}
    if fails:
        ob.status = "pending"
        ob.detail = "; ".join(sorted(set(fails)))[:700]
        pending.append((ob, fails))
    else:
        ob.status = "pass"


def analysis_glue(out, mc, which, pending):
    """EmmyLuaAnalysis::remove_file_by_uri / reindex and LuaCompilation glue"""
    fns = mc.fns("emmylua_code_analysis", r"lib\.rs[^>]*>::(remove_file_by_uri|reindex)\(|compilation::<impl[^>]*>::(remove_index|clear_index)\(|db_index::<impl[^>]*>::remove_index\(")
    if which == "remove":
        ob = out.add(Obligation("glue/removed_file_leaves_vfs_and_indexes", "M",
                                "remove_file_by_uri: when the VFS knew the file, the index removal is requested for exactly that file id (and the id is returned); "
                                "LuaCompilation::remove_index forwards the ids to DbIndex::remove_index",
                                {"functions": "EmmyLuaAnalysis::remove_file_by_uri, LuaCompilation::remove_index"}, []))
        fn = [f for f in fns if f.name.endswith("::remove_file_by_uri")]
        fails = []
        n = 0
        if len(fn) != 1:
            ob.status = "inconclusive"
            ob.detail = "remove_file_by_uri not found"
            return
        ex = symex.Executor(fns, max_visits=2)
        for p in ex.run(fn[0]):
            if p.kind != "return":
                fails.append("path kind %s" % p.kind)
                continue
            rf = mflow.find_event(p, r"Vfs::remove_file$")
            ri = [e for e in p.trace if re.search(r"LuaCompilation::remove_index$", e.get("short", ""))]
            if rf is None:
                fails.append("the VFS is not asked to remove the file")
                continue
            d = ex.discriminant(p.state, rf["result"])
            if mc.implied_eq(p, d.term, 1):
                n += 1
                if len(ri) != 1:
                    fails.append("file known to the VFS but index removal requested %d times" % len(ri))
                else:
                    idk = symex.kfmt(rf["result"].k) if isinstance(rf["result"], symex.Opaque) else "?"
                    arrays = [e for e in p.trace if e["callee"] == "<array>" and idk in e["akeys"][0]]
                    if idk not in ri[0]["akeys"][1] and not arrays:
                        fails.append("index removal is requested for something else than the removed file's id")
                if not (isinstance(p.ret, symex.Agg) and p.ret.variant == "Some"):
                    fails.append("removed file id is not returned")
        cf = [f for f in fns if re.search(r"compilation::<impl[^>]*>::remove_index$", f.name)]
        if len(cf) == 1:
            for p in symex.Executor(fns, max_visits=2).run(cf[0]):
                if p.kind == "return" and not [e for e in p.trace if re.search(r"DbIndex::remove_index$", e.get("short", ""))]:
                    fails.append("LuaCompilation::remove_index does not forward to DbIndex::remove_index")
        else:
            fails.append("LuaCompilation::remove_index not found")
        ob.witness = n > 0
    else:
        ob = out.add(Obligation("glue/reindex_clears_then_rebuilds_from_all_files", "M",
                                "reindex: the index is cleared (LuaCompilation::clear_index -> DbIndex::clear) before update_index runs, and update_index receives the list of ALL file ids the VFS holds",
                                {"functions": "EmmyLuaAnalysis::reindex, LuaCompilation::clear_index"}, []))
        fn = [f for f in fns if f.name.endswith("::reindex")]
        fails = []
        n = 0
        if len(fn) != 1:
            ob.status = "inconclusive"
            ob.detail = "reindex not found"
            return
        ex = symex.Executor(fns, max_visits=2)
        for p in ex.run(fn[0]):
            if p.kind != "return":
                fails.append("path kind %s" % p.kind)
                continue
            n += 1
            ids = mflow.find_event(p, r"Vfs::get_all_file_ids$")
            clr = [e for e in p.trace if re.search(r"LuaCompilation::clear_index$", e.get("short", ""))]
            upd = [e for e in p.trace if re.search(r"LuaCompilation::update_index$", e.get("short", ""))]
            if len(clr) != 1 or len(upd) != 1 or ids is None:
                fails.append("reindex does not perform exactly one clear_index, one update_index and one get_all_file_ids")
                continue
            if p.trace.index(clr[0]) > p.trace.index(upd[0]):
                fails.append("update_index runs before the index is cleared")
            if p.trace.index(ids) > p.trace.index(clr[0]) and False:
                pass
            if ex.deep_key(p.state, ids["result"]) != upd[0]["akeys"][1]:
                fails.append("update_index does not receive the VFS's list of all file ids")
        cf = [f for f in fns if re.search(r"compilation::<impl[^>]*>::clear_index$", f.name)]
        if len(cf) == 1:
            for p in symex.Executor(fns, max_visits=2).run(cf[0]):
                if p.kind == "return" and not [e for e in p.trace if re.search(r"LuaIndex>::clear$|DbIndex::clear$", e["callee"])]:
                    fails.append("LuaCompilation::clear_index does not clear the DbIndex")
        else:
            fails.append("LuaCompilation::clear_index not found")
        ob.witness = n > 0
    if fails:
        ob.status = "pending"
        ob.detail = "; ".join(sorted(set(fails)))[:600]
        pending.append((ob, fails))
    else:
        ob.status = "pass"


# native replay scenarios (vreplay kind "history")
def replay(out, pending, scenarios):
    if not pending:
        return
    res = mflow.native_replay({"kind": "history", "scenarios": scenarios})
    for ob, fails in pending:
        if "error" in res:
            ob.status = "inconclusive"
            ob.detail = "%s — native replay failed: %s" % ("; ".join(sorted(set(fails)))[:300], res["error"])
            continue
        bad = [r for r in res.get("results", []) if r.get("violates")]
        if not bad:
            ob.status = "inconclusive"
            ob.detail = ("solver found a frame-condition gap (%s) but none of the %d native histories shows a stale fact"
                         % ("; ".join(sorted(set(fails)))[:300], len(res.get("results", []))))
            continue
        rec = {"property": out.prop, "role": ob.role, "solver_findings": sorted(set(fails))[:6], "scenario": {"kind": "history", "scenarios": scenarios},
               "native": bad[:3], "violates": True}
        path = mflow.write_replay(out, ob.oid.replace("/", "_"), rec)
        from core import match_known
        kf = match_known(out.prop, ob.role, bad[0].get("id", ""), {})
        ob.counterexamples = [{"findings": sorted(set(fails))[:3], "native_history": bad[0].get("id"), "replay": path}]
        if kf:
            ob.status = "known"
            out.known("%s [%s]" % (kf["what"], ob.oid))
        else:
            ob.status = "violation"
            ob.detail = "%s — confirmed natively by history %s: %s" % ("; ".join(sorted(set(fails)))[:300], bad[0].get("id"), str(bad[0].get("why"))[:200])
            out.violation(path, "(%s: %s)" % (ob.oid, bad[0].get("id")))
