"""C32 — Configuration merging is deterministic and later files win (engine M).

Decided as an inductive argument over the structure of the merged documents; each step is an obligation over all
paths of the real function's MIR (path feasibility and case splits by z3):

  N  load_configs_raw normalises the spelling of EVERY document (FlattenConfigObject::parse -> to_emmyrc: dotted flat
     keys become nested objects) before it is handed to merge_values, in file order, folding into one accumulator
     that is the result.  Then "flat key == nested form" and "later file wins" reduce to merge_values on nested
     documents.
  M  merge_values(base, overlay), by the kinds of the two values (z3 case split on the two discriminants):
       not (object,object) and not (array,array): *base = overlay               (later value wins)
       (object, object): for every (key, value) of overlay, in turn: base_map.get_mut(&key) is asked with that key;
            Some(slot) -> merge_values(slot, value) (the induction hypothesis applies), None -> insert(key, value)
       (array, array): base.extend(overlay.into_iter().filter(p)) where p(item) = seen.insert(item.clone()) and
            `seen` starts as the set of base's own items  =>  appended without duplicates
  P  to_emmyrc_json places the value of a key "s0.s1...sn" by descending s0..s(n-1) with Map::entry in order and
     assigning at sn (segments: all contents, 1..3 of them)

Counterexamples are replayed by loading generated pairs / triples of documents through the real load_configs_raw
(twice, in separate processes, for different hash seeds) and comparing with a reference merge.
"""
import json
import re
import time

import z3

import mflow
import symex
import vecmodel
import c31flat
from core import Obligation, match_known


def _names(p):
    return [e.get("short", e["callee"]) for e in p.trace]


def normalise(out, mc, pending):
    fns = mc.fns("emmylua_code_analysis", r"load_configs_raw|merge_values")
    fn = [f for f in fns if f.name == "load_configs_raw"]
    ob = out.add(Obligation("normalise/every_document_before_merging", "M",
                            "load_configs_raw: every merge_values call reachable from it (in its body or in a closure it passes on) receives as overlay the result of "
                            "FlattenConfigObject::to_emmyrc(parse(document)); the single-document path returns that normal form too",
                            {"function": "load_configs_raw", "documents": "loop heads visited twice (0, 1, 2+ files and partial configurations)"}, [f.name for f in fn]))
    if len(fn) != 1:
        ob.status = "inconclusive"
        ob.detail = "load_configs_raw: %d candidates" % len(fn)
        return
    fails = []
    t0 = time.time()
    sites = 0
    files_seen = [0]
    roots = [fn[0]] + [f for f in fns if f.name.startswith("load_configs_raw::{closure")]
    npaths = 0
    single_ok = False
    for root in roots:
        ex = symex.Executor(fns, max_visits=2)
        paths = ex.run(root)
        npaths += len(paths)
        for p in paths:
            if p.kind not in ("return", "cut"):
                fails.append("%s: path kind %s" % (root.name, p.kind))
                continue
            first = True
            for e in p.trace:
                if e.get("short", e["callee"]) != "merge_values":
                    continue
                sites += 1
                base = e["akeys"][0]
                if root is fn[0]:
                    if "::next" in base or "into_iter" in base or not re.search(r"Object:None\(opq:\(call,::default", base):
                        fails.append("the accumulator documents are merged into is not the empty object / the result of the earlier merges (%s): a raw document serves as base" % base[:60])
                    elif first and "havoc" in base:
                        fails.append("the first merge does not start from the empty object")
                first = False
                over = e["akeys"][1]
                if "FlattenConfigObject::to_emmyrc" not in over or "FlattenConfigObject::parse" not in over:
                    fails.append("documents are merged in their raw spelling (merge_values in %s gets %s): a flat key of one file and the nested form of another "
                                 "do not meet" % (root.name.split("::")[-1], over[:60]))
            if root is fn[0]:
                # every file of the list is read, whatever happened to the files before it
                evs = p.trace
                for i, e in enumerate(evs):
                    if e.get("short", "").endswith("::next") and "PathBuf" in e["callee"] and isinstance(e["result"], symex.Opaque):
                        if not mc.implied_eq(p, ex.discriminant(p.state, e["result"]).term, 1):
                            continue
                        files_seen[0] += 1
                        item = symex.kfmt(e["result"].k)
                        rest = evs[i + 1:]
                        stop = next((j for j, g in enumerate(rest) if g.get("short", "").endswith("::next") and "PathBuf" in g["callee"]), len(rest))
                        reads = [g for g in rest[:stop] if re.search(r"read_file_with_encoding$", g.get("short", "")) and item in g["akeys"][0]]
                        if not reads and (stop < len(rest) or p.kind == "return"):
                            fails.append("a file of the list is not read")
            if root is fn[0] and p.kind == "return":
                nm = _names(p)
                if "merge_values" not in nm and "fold" not in nm and "FlattenConfigObject::to_emmyrc" in nm:
                    single_ok = True
    out.extra_cov.setdefault("symbolic_execution", []).append({"function": "load_configs_raw + closures", "paths": npaths, "seconds": round(time.time() - t0, 2)})
    if sites == 0:
        fails.append("no merge_values call is reachable from load_configs_raw")
    if not single_ok:
        fails.append("no path returns a single document in normal form")
    if files_seen[0] == 0:
        fails.append("load_configs_raw does not walk the list of files itself (no file item is seen being read)")
    ob.witness = sites > 0
    ob.solver_s = time.time() - t0
    ob.extra = {"merge_call_sites_seen_on_paths": sites}
    if fails:
        ob.status = "pending"
        ob.detail = "; ".join(sorted(set(fails)))[:600]
        pending.append((ob, fails))
    else:
        ob.status = "pass"


def merge_arms(out, mc, pending):
    fns = mc.fns("emmylua_code_analysis", r"load_configs_raw|merge_values")
    fn = [f for f in fns if f.name == "merge_values"]
    clo = [f for f in fns if f.name.startswith("merge_values::{closure")]
    obs = {
        "scalar": out.add(Obligation("merge/other_kinds_later_value_wins", "M",
                                     "merge_values: unless both values are objects or both are arrays, *base becomes exactly the overlay value (z3: all pairs of kinds)",
                                     {"function": "merge_values", "kinds": "6 x 6"}, [f.name for f in fn])),
        "object": out.add(Obligation("merge/objects_merge_keywise", "M",
                                     "merge_values on two objects: for every entry of overlay, base_map.get_mut is asked with that entry's key; found -> merge_values(slot, that value); "
                                     "absent -> insert(that key, that value); nothing else touches base",
                                     {"function": "merge_values", "entries": "<= 2 explored, each step from an arbitrary map (induction on entries and on depth)"}, [f.name for f in fn])),
        "array": out.add(Obligation("merge/arrays_append_without_duplicates", "M",
                                    "merge_values on two arrays: base is extended with overlay's items filtered by p(item) = seen.insert(item.clone()), and `seen` is built from base's "
                                    "own items, so an item equal to one already present (in base or earlier in overlay) is not appended",
                                    {"function": "merge_values + its filter closure"}, [f.name for f in fn + clo])),
    }
    if len(fn) != 1:
        for ob in obs.values():
            ob.status = "inconclusive"
            ob.detail = "merge_values: %d candidates" % len(fn)
        return
    ex = symex.Executor(fns, max_visits=symex.visits(3))
    t0 = time.time()
    paths = ex.run(fn[0])
    out.extra_cov.setdefault("symbolic_execution", []).append({"function": "merge_values", "paths": len(paths), "seconds": round(time.time() - t0, 2), **ex.stats})
    fails = {"scalar": [], "object": [], "array": []}
    seen_kind = {"scalar": 0, "object": 0, "array": 0}
    d1 = ex.discriminant(paths[0].state, symex.Opaque("serde_json::Value", (("arg", 1), "*"))).term if paths else None
    d2 = ex.discriminant(paths[0].state, symex.Opaque("serde_json::Value", ("arg", 2))).term if paths else None
    OBJ, ARR = z3.BitVecVal(5, 64), z3.BitVecVal(4, 64)
    covered = []
    for p in paths:
        if p.kind not in ("return", "cut"):
            fails["scalar"].append("path kind %s %s" % (p.kind, p.info[:60]))
            continue
        both_obj = mc.implied_eq(p, d1, 5) and mc.implied_eq(p, d2, 5)
        both_arr = mc.implied_eq(p, d1, 4) and mc.implied_eq(p, d2, 4)
        nm = _names(p)
        covered.append(z3.And(*p.pc) if p.pc else z3.BoolVal(True))
        if both_obj:
            seen_kind["object"] += 1
            # walk the trace: next -> get_mut(key of that entry) -> merge_values / insert with that entry's key & value
            evs = [e for e in p.trace if re.search(r"::next$|Map::get_mut$|^merge_values$|Map::insert$", e.get("short", e["callee"]))]
            cur = None
            state = "idle"
            for e in evs:
                sn = e.get("short", e["callee"])
                if sn.endswith("::next"):
                    if state == "asked":
                        fails["object"].append("an entry of overlay is looked up in base but neither merged nor inserted")
                    cur = symex.kfmt(e["result"].k) if isinstance(e["result"], symex.Opaque) else None
                    state = "entry"
                elif sn.endswith("Map::get_mut"):
                    if cur is None or cur not in e["akeys"][1]:
                        fails["object"].append("base is asked for a key that is not the current overlay entry's key")
                    if "((arg,1),*)" not in e["akeys"][0]:
                        fails["object"].append("the lookup is not made in base's map")
                    asked = e
                    state = "asked"
                elif sn == "merge_values":
                    if state != "asked" or cur is None or cur not in e["akeys"][1] or "Map::get_mut" not in e["akeys"][0]:
                        fails["object"].append("the recursive merge is not (slot found in base, current overlay value)")
                    state = "done"
                elif sn.endswith("Map::insert"):
                    if state != "asked" or cur is None or cur not in e["akeys"][1] or cur not in e["akeys"][2] or "((arg,1),*)" not in e["akeys"][0]:
                        fails["object"].append("the insertion is not (base's map, current overlay key, current overlay value)")
                    state = "done"
            if state == "asked" or (state == "entry" and p.kind == "return" and False):
                fails["object"].append("an entry of overlay is looked up in base but neither merged nor inserted")
            others = [n for n in nm if re.search(r"Map::(remove|clear|retain|swap_remove|shift_remove)|extend$", n)]
            if others:
                fails["object"].append("base's map is also modified by %s" % others[:2])
        elif both_arr:
            seen_kind["array"] += 1
            ext = [e for e in p.trace if e.get("short", e["callee"]) == "extend"]
            if len(ext) != 1 or "((arg,1),*)" not in ext[0]["akeys"][0]:
                fails["array"].append("base's array is not extended exactly once")
                continue
            src = ext[0]["akeys"][1]
            if "filter" not in src or "((arg,2),as,Array)" not in src:
                fails["array"].append("what is appended is not overlay's items behind a filter")
                continue
            flt = [e for e in p.trace if e.get("short", e["callee"]) == "filter"]
            cf = ex.closure_fn(flt[0]["args"][1]) if flt and len(flt[0]["args"]) > 1 else None
            if cf is None:
                fails["array"].append("the filter predicate is not a closure of merge_values")
                continue
            # the predicate: returns HashSet::insert(captured set, the item)
            ex2 = symex.Executor(fns, max_visits=2)
            cps = ex2.run(cf)
            good = len(cps) == 1 and cps[0].kind == "return"
            if good:
                ins = [e for e in cps[0].trace if re.search(r"HashSet::insert$", e.get("short", e["callee"]))]
                good = (len(ins) == 1 and "(arg,1)" in ins[0]["akeys"][0] and "(arg,2)" in ins[0]["akeys"][1]
                        and isinstance(cps[0].ret, symex.BoolV) and symex.vkey(cps[0].ret) == symex.vkey(ins[0]["result"]))
            if not good:
                fails["array"].append("the filter predicate is not `seen.insert(item.clone())`")
            # where does the captured set come from?
            clo_val = flt[0]["args"][1]
            cap = clo_val.fields[0] if isinstance(clo_val, symex.Agg) and clo_val.fields else None
            capv = ex.deref(p.state, cap) if isinstance(cap, symex.Ref) else cap
            ck = ex.deep_key(p.state, capv) if capv is not None else ""
            if "((arg,1),*)" not in ck:
                fails["array"].append("`seen` does not start from base's items (it is %s): an overlay item equal to one already in base is appended again" % (ck[:50] or "unknown"))
        else:
            # some other pair of kinds: the final *base must be the overlay argument
            if p.kind != "return":
                continue
            seen_kind["scalar"] += 1
            basev = ex.deref(p.state, p.state.frames[0][fn[0].args[0][0]]) if fn[0].args[0][0] in p.state.frames[0] else None
            if basev is None or ex.deep_key(p.state, basev) != "opq:(arg,2)":
                fails["scalar"].append("for some pair of kinds *base does not become the overlay value")
            if [n for n in nm if not re.search(r"drop|clone", n)]:
                fails["scalar"].append("for some pair of kinds something else happens: %s" % nm[:3])
    # the case split is complete: every pair of kinds is on some path
    sol = z3.Solver()
    sol.add(z3.Or(covered))
    for k1 in range(6):
        for k2 in range(6):
            if sol.check(d1 == k1, d2 == k2) != z3.sat:
                fails["scalar"].append("the pair of kinds (%d, %d) is not handled by any path" % (k1, k2))
    for k, ob in obs.items():
        ob.witness = seen_kind[k] > 0
        ob.solver_s = round(time.time() - t0, 2)
        if seen_kind[k] == 0:
            fails[k].append("no path with this pair of kinds")
        if fails[k]:
            ob.status = "pending"
            ob.detail = "; ".join(sorted(set(fails[k])))[:600]
            pending.append((ob, fails[k]))
        else:
            ob.status = "pass"


def placement(out, mc, pending, tier):
    S = 3 if tier == "quick" else 4
    fns = mc.fns("emmylua_code_analysis", r"to_emmyrc_json|flatten_object")
    fn = [f for f in fns if f.name == "to_emmyrc_json"]
    ob = out.add(Obligation("place/dotted_key_equals_nested_form", "M",
                            "to_emmyrc_json: the value of a flattened key s0.s1...sn is stored by descending with Map::entry(s0), .., entry(s(n-1)) in this order from the root "
                            "and assigning at sn — the nested form of the dotted key (segments of any content)",
                            {"function": "to_emmyrc_json", "segments_per_key": "1..%d" % S, "entries": "<= 2"}, [f.name for f in fn]))
    if len(fn) != 1:
        ob.status = "inconclusive"
        ob.detail = "to_emmyrc_json: %d candidates" % len(fn)
        return
    ex = symex.Executor(fns, max_visits=2 * (S + 2) + 2)
    c31flat.install(ex, S, 2)
    # record where values are stored: wrap the index_mut model with an event
    inner = [(rx, h) for rx, h in ex.models if "index_mut" in rx]
    inner_obj = [(rx, h) for rx, h in ex.models if "is_object" in rx]

    def m_index_mut(ex_, st, cname, args, dest_ty, fn_):
        r = inner[0][1](ex_, st, cname, args, dest_ty, fn_)
        st.trace.append(symex.Event(callee="<index_mut>", short="<index_mut>", args=args, akeys=[ex_.deep_key(st, a) for a in args], result=r, fn=fn_.name))
        return r

    def m_is_object(ex_, st, cname, args, dest_ty, fn_):
        r = inner_obj[0][1](ex_, st, cname, args, dest_ty, fn_)
        st.trace.append(symex.Event(callee="<is_object>", short="<is_object>", args=args, akeys=[ex_.deep_key(st, a) for a in args], result=r, fn=fn_.name))
        return r
    ex.models = [(inner[0][0], m_index_mut), (inner_obj[0][0], m_is_object)] + ex.models
    t0 = time.time()
    paths = ex.run(fn[0])
    fails = []
    entries = 0

    def seg_of(k):
        return [int(i) for _, i in re.findall(r"\(segment,(\d+),(\d+)\)", k)]
    for p in paths:
        if p.kind != "return":
            fails.append("path kind %s %s" % (p.kind, p.info[:60]))
            continue
        # one chunk of the trace per entry of the flattened map (from the iterator's next to the following one)
        chunks, cur = [], None
        for e in p.trace:
            sn = e.get("short", e["callee"])
            if sn == "<flat_next>":
                cur = []
                chunks.append(cur)
            elif cur is not None:
                cur.append(e)
        for ch in chunks:
            if not ch:
                continue            # the terminating next
            ent = [e for e in ch if re.search(r"Map::entry$", e.get("short", e["callee"]))]
            tos = [e for e in ch if re.search(r"to_string$", e.get("short", e["callee"]))]
            idx = [e for e in ch if e.get("short", e["callee"]) == "<index_mut>"]
            if len(idx) != 1:
                fails.append("one flattened key is stored %d times" % len(idx))
                continue
            entries += 1
            last = seg_of(idx[0]["akeys"][1])
            if not last:
                fails.append("a value is stored under something that is not a segment of its split key (a path that bypasses the descent and its guards)")
                continue
            used = [seg_of(e["akeys"][0]) for e in tos]
            n = last[-1] + 1
            want = [[i] for i in range(n - 1)]
            if [u[-1:] for u in used] != want or len(ent) != n - 1:
                fails.append("a key of %d segments descends through %s instead of segments 0..%d in order" % (n, [u[-1:] for u in used], n - 2))
            # guards that make the result independent of the map's iteration order ("the nested form wins"):
            # every step first asks is_object(current) (and replaces a non-object), and the final store is skipped when the slot holds an object
            objs = [e for e in ch if e.get("short") == "<is_object>"]
            if len(objs) < n + 1:
                fails.append("a descent of %d segments asks is_object only %d times (each level and the final slot must be asked)" % (n, len(objs)))
                continue
            slot_q = objs[-1]
            slot_cell = idx[0]["result"]
            stored = False
            if isinstance(slot_cell, symex.Ref):
                v = ex.deref(p.state, slot_cell)
                stored = not (isinstance(v, symex.Opaque) and symex.kfmt(v.k).startswith("(json,index_mut"))
            r, _ = mc.check(list(p.pc) + [slot_q["result"].term], "slot_is_object")
            slot_is_obj_possible = r != "unsat"
            r2, _ = mc.check(list(p.pc) + [z3.Not(slot_q["result"].term)], "slot_not_object")
            slot_not_obj_possible = r2 != "unsat"
            if stored and slot_is_obj_possible:
                fails.append("a scalar is stored over a slot that may already hold the nested object of a longer key (result depends on hash order)")
            if not stored and slot_not_obj_possible:
                fails.append("the value of a key is not stored although its slot holds no object")
    ob.witness = entries > 0
    if entries == 0:
        fails.append("no entry of the flattened map was followed through the descent (vacuous)")
    ob.extra = {"paths": len(paths), "entries_checked": entries}
    ob.solver_s = round(time.time() - t0, 2)
    if fails:
        ob.status = "pending"
        ob.detail = "; ".join(sorted(set(fails)))[:600]
        pending.append((ob, fails))
    else:
        ob.status = "pass"


# ---- native replay -------------------------------------------------------------------------------

def ref_merge(docs):
    """reference semantics of the property: normal form of each document, later wins, arrays appended without duplicates"""
    def nest(doc):
        outd = {}
        if not isinstance(doc, dict):
            return outd

        def put(d, segs, v):
            for s in segs[:-1]:
                if not isinstance(d.get(s), dict):
                    d[s] = {}
                d = d[s]
            if isinstance(v, dict):
                if not isinstance(d.get(segs[-1]), dict):
                    d[segs[-1]] = {}
                for k2, v2 in v.items():
                    put(d[segs[-1]], k2.split("."), v2)
            elif not isinstance(d.get(segs[-1]), dict):      # the nested form wins over a scalar under the same key
                d[segs[-1]] = v
        for k, v in sorted(doc.items(), key=lambda kv: isinstance(kv[1], dict)):
            put(outd, k.split("."), v)
        return outd

    def merge(a, b):
        if isinstance(a, dict) and isinstance(b, dict):
            for k, v in b.items():
                if k in a:
                    a[k] = merge(a[k], v)
                else:
                    a[k] = v
            return a
        if isinstance(a, list) and isinstance(b, list):
            for x in b:
                if x not in a:
                    a.append(x)
            return a
        return b
    acc = {}
    for d in docs:
        acc = merge(acc, nest(json.loads(json.dumps(d))))
    return acc


def battery():
    cases = []
    F, N = (lambda v: {"diagnostics.enable": v}), (lambda v: {"diagnostics": {"enable": v}})
    for a_name, a in (("flat", F), ("nested", N)):
        for b_name, b in (("flat", F), ("nested", N)):
            cases.append(("scalar_%s_then_%s" % (a_name, b_name), [a(False), b(True)], "/diagnostics/enable"))
            cases.append(("scalar_%s_then_%s_rev" % (a_name, b_name), [a(True), b(False)], "/diagnostics/enable"))
    FA, NA = (lambda v: {"diagnostics.disable": v}), (lambda v: {"diagnostics": {"disable": v}})
    for a_name, a in (("flat", FA), ("nested", NA)):
        for b_name, b in (("flat", FA), ("nested", NA)):
            cases.append(("array_%s_then_%s" % (a_name, b_name), [a(["a", "b"]), b(["b", "c", "c"])], "/diagnostics/disable"))
    # array items that are not strings are de-duplicated like any other value
    lib = {"path": "lib", "ignoreDir": ["x"]}
    cases.append(("array_of_objects", [{"workspace": {"library": [lib]}}, {"workspace.library": [lib, "other"]}], "/workspace/library"))
    cases.append(("array_of_numbers", [{"a": {"b": [1, 2, None, True]}}, {"a.b": [2, 3, None, True, [1]]}, {"a": {"b": [[1], 3]}}], "/a/b"))
    cases.append(("triple_mixed", [F(True), N(False), F(True)], "/diagnostics/enable"))
    cases.append(("triple_mixed2", [N(True), F(False), N(False)], "/diagnostics/enable"))
    cases.append(("deep_flat_then_nested", [{"runtime.version": "Lua5.1"}, {"runtime": {"version": "Lua5.4"}}], "/runtime/version"))
    cases.append(("deep_nested_then_flat", [{"runtime": {"version": "Lua5.1"}}, {"runtime.version": "Lua5.4"}], "/runtime/version"))
    cases.append(("unrelated_keys_survive", [{"runtime.version": "Lua5.1", "diagnostics.enable": False}, {"diagnostics": {"disable": ["x"]}}], "/runtime/version"))
    # determinism for a key that is both a value and a prefix inside ONE document: the nested form wins in every load
    cases.append(("value_and_prefix_one_doc", [{"diagnostics": 0, "diagnostics.enable": False}], "/diagnostics/enable"))
    cases.append(("value_and_prefix_null", [{"runtime": None, "runtime.version": "Lua5.4"}], "/runtime/version"))
    cases.append(("value_and_prefix_two_docs", [{"diagnostics": 0, "diagnostics.enable": False}, {"runtime.version": "Lua5.4"}], "/diagnostics/enable"))
    cases.append(("sibling_keys_survive", [{"diagnostics": {"enable": False}}, {"diagnostics.disable": ["x"]}], "/diagnostics/enable"))
    cases.append(("sibling_keys_survive2", [{"diagnostics.enable": False}, {"diagnostics": {"disable": ["x"]}}], "/diagnostics/disable"))
    return cases


FILE_CASES = [
    # (id, files [(name, text or None)], pointer, expected value): an unusable file does not stop the files behind it
    ("broken_file_in_the_middle", [("a.json", '{"runtime.version": "Lua5.1"}'), ("b.json", '{ this is not json'), ("c.json", '{"runtime": {"version": "Lua5.4"}}')], "/runtime/version", "Lua5.4"),
    ("missing_file_first", [("nope.json", None), ("c.json", '{"diagnostics.enable": false}')], "/diagnostics/enable", False),
    ("two_good_files", [("a.json", '{"diagnostics": {"enable": true}}'), ("c.json", '{"diagnostics.enable": false}')], "/diagnostics/enable", False),
]


def run_battery():
    cases = battery()
    sc = {"kind": "config_merge", "repeat": 12, "cases": [{"id": c[0], "docs": c[1], "pointer": c[2]} for c in cases] +
          [{"id": c[0], "docs": [], "files": [{"name": n, "text": t} if t is not None else {"name": n} for n, t in c[1]], "pointer": c[2]} for c in FILE_CASES]}
    runs = [mflow.native_replay(sc), mflow.native_replay(sc)]      # two processes: two hash seeds
    bad = []
    for cid, docs, ptr in cases:
        want = ref_merge(docs)
        for seg in ptr.strip("/").split("/"):
            want = want.get(seg) if isinstance(want, dict) else None
        got = []
        for r in runs:
            if "error" in r:
                return None, r["error"], sc
            for x in r.get("results", []):
                if x["id"] == cid:
                    got += [json.dumps(v, sort_keys=True) for v in x["values"]]
        if set(got) != {json.dumps(want, sort_keys=True)}:
            bad.append({"id": cid, "docs": docs, "pointer": ptr, "expected": want, "loaded": sorted(set(got))})
    for cid, files, ptr, want in FILE_CASES:
        got = []
        for r in runs:
            for x in r.get("results", []):
                if x["id"] == cid:
                    got += [json.dumps(v, sort_keys=True) for v in x["values"]]
        if set(got) != {json.dumps(want, sort_keys=True)}:
            bad.append({"id": cid, "files": files, "pointer": ptr, "expected": want, "loaded": sorted(set(got))})
    return bad, None, sc


def replay(out, pending):
    if not pending:
        return
    bad, err, sc = run_battery()
    for ob, fails in pending:
        if err:
            ob.status = "inconclusive"
            ob.detail = "%s — native replay failed: %s" % ("; ".join(sorted(set(fails)))[:300], err)
            continue
        role = ob.role
        mine = [b for b in bad if (b["id"].startswith("array") if ob.oid.startswith("merge/arrays") else not b["id"].startswith("array"))] or bad
        if not mine:
            ob.status = "inconclusive"
            ob.detail = ("solver found a deviation (%s) but none of the %d native merges differs from the reference" % ("; ".join(sorted(set(fails)))[:300], len(battery())))
            continue
        rec = {"property": out.prop, "role": role, "solver_findings": sorted(set(fails))[:5], "scenario": sc, "native": mine[:4], "violates": True}
        path = mflow.write_replay(out, ob.oid.replace("/", "_"), rec)
        ob.counterexamples = [{"findings": sorted(set(fails))[:3], "native": mine[:2], "replay": path}]
        kf = match_known(out.prop, role, mine[0]["id"], {})
        if kf:
            ob.status = "known"
            out.known("%s [%s]" % (kf["what"], ob.oid))
        else:
            ob.status = "violation"
            ob.detail = "%s — confirmed natively: %s loads %s, expected %s" % ("; ".join(sorted(set(fails)))[:300], mine[0]["id"], mine[0]["loaded"], json.dumps(mine[0]["expected"]))
            out.violation(path, "(%s: %s loads %s, expected %s)" % (ob.oid, mine[0]["id"], mine[0]["loaded"], json.dumps(mine[0]["expected"])))


def replay_scenario(sc):
    bad, err, _ = run_battery()
    print(json.dumps({"error": err, "deviations": bad})[:3000])
    return 1 if bad else (2 if err else 0)


def run(out):
    out.functions = ["load_configs_raw (+ closures)", "merge_values (+ filter closure)", "to_emmyrc_json"]
    out.bounds = {"paths": "all paths; loop heads visited 2-3 times; keys of 1..3 segments (thorough 1..4)", "kinds": "all 36 pairs of JSON kinds"}
    out.outside = ["one file that spells the same setting twice (flat and nested)", "the Lua configuration loader, file reading, JSON parsing", "deserialisation of the merged object into Emmyrc (serde)",
                   "hash-order of to_emmyrc_json when two flattened keys collide (value-and-prefix keys; see C31)", "more than two entries per object / documents per fold in one symbolic run (induction on entries)"]
    out.assumptions = ["serde_json::Map::get_mut/insert/entry, Vec::extend, Iterator::filter, HashSet::insert follow their documented contracts (they are events, not executed)",
                       "structural induction: the recursive merge_values call satisfies the same specification on the sub-values",
                       "FlattenConfigObject::parse followed by to_emmyrc yields the nested normal form of a document (placement obligation + C31 panic freedom)"]
    mc = mflow.MContext(out)
    pending = []
    try:
        normalise(out, mc, pending)
        merge_arms(out, mc, pending)
        placement(out, mc, pending, out.tier)
    except (symex.Unsupported, RuntimeError, KeyError, ValueError, IndexError, AttributeError, TypeError) as e:
        import traceback
        out.fatal = "engine M could not encode the current source: %r\n%s" % (e, traceback.format_exc()[-1500:])
    replay(out, pending)
    mc.finish()
