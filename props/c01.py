"""C01 — Syntax trees are lossless (kernel scope: Reader, green builder)."""
import mflow
import parsekernels as pk
import symex
from core import match_known

TEXTS = ["a\u0000b", "local x = 1\u0000\nprint(x)\n", "\u0000", "--c\u0000d\nx=1", "x = 1", "local t = {1,\n--[[c]] 2}\n", "---@class A\n---@field x integer\nlocal a = {}\n",
         "﻿local a = 1", "if x then\n  -- c\nend -- t\n", "f(\n", "local s = [[\nabc]]", "a = 1 --[==[ x ]==] b = 2", "\r\n\r\nx=1\r", "goto l ::l::", "x = {",
         "--- d\n--- e\nfunction f() end", "  \n\t\n", ""]


def replay(out, pending):
    if not pending:
        return
    res = mflow.native_replay({"kind": "parse", "texts": TEXTS})
    for ob, fails, sample in pending:
        if "error" in res:
            ob.status = "inconclusive"
            ob.detail += " — native replay failed: " + res["error"]
            continue
        bad = [r for r in res.get("results", []) if not r["lossless"]]
        if not bad:
            ob.status = "inconclusive"
            ob.detail = ("solver found a deviation in the builder (%s) but all %d native texts parse losslessly"
                         % ("; ".join(sorted(set(fails))[:3])[:300], len(TEXTS)))
            continue
        rec = {"property": out.prop, "role": ob.role, "solver_findings": sorted(set(fails))[:6], "solver_counterexample": sample,
               "scenario": {"kind": "parse", "texts": TEXTS}, "native": bad[:5], "violates": True}
        path = mflow.write_replay(out, ob.oid.replace("/", "_"), rec)
        ob.counterexamples = [{"findings": sorted(set(fails))[:3], "lossy_inputs": [b["input"] for b in bad][:4], "replay": path}]
        kf = match_known(out.prop, ob.role, ob.oid.split("/")[1], {})
        if kf:
            ob.status = "known"
            out.known("%s [%s]" % (kf["what"], ob.oid))
        else:
            ob.status = "violation"
            ob.detail = "%s — real parser loses text on %s" % ("; ".join(sorted(set(fails))[:3])[:300], [b["input"] for b in bad][:3])
            out.violation(path, "(%s: tree text != input for %s)" % (ob.oid, [b["input"] for b in bad][:3]))


def run(out):
    out.functions = ["Reader::{new,bump,reset_buff,is_eof,current_range,tail_range}", "LuaGreenNodeBuilder::{token,start_node,finish_node,is_trivia,is_trivia_whitespace}",
                     "LuaParser::{init,bump,skip_trivia,parse_trivia_tokens,parse_comments,peek_next_token,peek_nth_token,previous_token_range,current_token_range}"]
    maxops = 4 if out.tier == "quick" else 6
    out.bounds = {"reader": "texts of every byte-width shape of <= %d characters, <= k+1 symbolic bump/reset operations" % (3 if out.tier == "quick" else 4),
                  "bump": "every token vector of <= %d tokens, each symbolic over (five trivia kinds | any other kind), doc parsing off" % (3 if out.tier == "quick" else 5),
                  "builder": "every balanced operation sequence of <= %d operations inside the Chunk wrapper; all node / token kinds symbolic" % maxops}
    out.outside = ["the lexer's choice of lexeme boundaries and lexemes (whole-lexer symbolic runs do not terminate; see DESIGN.md)",
                   "the grammar (which node events it emits, recovery paths), doc-comment parsing (LuaDocParser; enable_emmylua_doc = true)", "rowan's storage of token texts (build_rowan_green is mirrored, not executed)",
                   "operation sequences longer than the bound"]
    out.assumptions = ["Vec / slice / iterator operations follow their std contracts (exact models in mirsmt/vecmodel.py)",
                       "finish() emits the first top-level child depth-first (read from the source; the walk is mirrored in the check)",
                       "Kani's std model for the Reader harnesses"]
    pk.run_reader(out)
    mc = mflow.MContext(out)
    pending = []
    try:
        pending = pk.builder_obligations(out, mc, True, maxops)
        pending += pk.parser_obligations(out, mc, True, 3 if out.tier == "quick" else 5)
    except (symex.Unsupported, RuntimeError, KeyError, ValueError, IndexError, AttributeError, TypeError) as e:
        import traceback
        out.fatal = "engine M could not encode the current source: %r\n%s" % (e, traceback.format_exc()[-1500:])
    replay(out, pending)
    mc.finish()
