"""C01 — Syntax trees are lossless (kernel scope: Reader, green builder)."""
import mflow
import parsekernels as pk
import symex
from core import match_known

TEXTS = ["a\u0000b", "local x = 1\u0000\nprint(x)\n", "\u0000", "--c\u0000d\nx=1", "x = 1", "local t = {1,\n--[[c]] 2}\n", "---@class A\n---@field x integer\nlocal a = {}\n",
         "﻿local a = 1", "if x then\n  -- c\nend -- t\n", "f(\n", "local s = [[\nabc]]", "a = 1 --[==[ x ]==] b = 2", "\r\n\r\nx=1\r", "goto l ::l::", "x = {",
         "--- d\n--- e\nfunction f() end", "  \n\t\n", "",
         ")", "}", "]", "=1", ".x", ", y", "~", ":", "not", ") x = 1", "local t = { name", "return { a = 1, { b", "global", "x = 1 -- \U0001F600", "--- doc \U0001F600",
         "\U0001F600", "s = '\U0001F600' -- 名", "local t = {x", "a.b", "f(a", "x =",
         "{\n;  else ", "local--region\n 1", "\n---@class A\n---@field x number?\n中文 a\n\n---@class B\n---@field x number\n中文 b\n\nb.x = a.x\n",
         "local x = 1\nglobal\nlocal y = 2\n", "{ end\n", "\ufeff-- hello", "\ufefflocal a = 1\nreturn a\n", "$ -- c\n", "\ufeff#!x\nlocal a", "local a = 1\u0000", "-- note\u0000\nlocal a = 1\n",
         "|if", "x <const> *\n", "---@param\n---@field\nlocal function f() end", "if x then else elseif end", "f(function() end", "t = {[1]=, 2}"]


def replay(out, pending):
    if not pending:
        return
    res = mflow.native_replay({"kind": "parse", "texts": TEXTS})
    for ob, fails, sample in pending:
        if "error" in res:
            ob.status = "inconclusive"
            ob.detail += " — native replay failed: " + res["error"]
            continue
        bad = [r for r in res.get("results", []) if not r["lossless"]]
        if not bad:
            ob.status = "inconclusive"
            ob.detail = ("solver found a deviation in the builder (%s) but all %d native texts parse losslessly"
                         % ("; ".join(sorted(set(fails))[:3])[:300], len(TEXTS)))
            continue
        rec = {"property": out.prop, "role": ob.role, "solver_findings": sorted(set(fails))[:6], "solver_counterexample": sample,
               "scenario": {"kind": "parse", "texts": TEXTS}, "native": bad[:5], "violates": True}
        path = mflow.write_replay(out, ob.oid.replace("/", "_"), rec)
        ob.counterexamples = [{"findings": sorted(set(fails))[:3], "lossy_inputs": [b["input"] for b in bad][:4], "replay": path}]
        kf = match_known(out.prop, ob.role, ob.oid.split("/")[1], {})
        if kf:
            ob.status = "known"
            out.known("%s [%s]" % (kf["what"], ob.oid))
        else:
            ob.status = "violation"
            ob.detail = "%s — real parser loses text on %s" % ("; ".join(sorted(set(fails))[:3])[:300], [b["input"] for b in bad][:3])
            out.violation(path, "(%s: tree text != input for %s)" % (ob.oid, [b["input"] for b in bad][:3]))


def run(out):
    out.functions = ["Reader::{new,bump,reset_buff,is_eof,current_range,tail_range}", "LuaGreenNodeBuilder::{token,start_node,finish_node,is_trivia,is_trivia_whitespace}",
                     "LuaParser::{init,bump,skip_trivia,parse_trivia_tokens,parse_comments,peek_next_token,peek_nth_token,previous_token_range,current_token_range}",
                     "MarkerEventContainer::{mark,push_node_end}, Marker::{complete,undo}, CompleteMarker::precede"]
    maxops = 4 if out.tier == "quick" else 6
    out.bounds = {"reader": "texts of every byte-width shape of <= %d characters, <= k+1 symbolic bump/reset operations" % (3 if out.tier == "quick" else 4),
                  "bump": "every token vector of <= %d tokens, each symbolic over (five trivia kinds | any other kind), doc parsing off" % (3 if out.tier == "quick" else 5),
                  "marker": "every sequence of <= %d marker operations starting with mark(); kinds symbolic" % (4 if out.tier == "quick" else 6),
                  "builder": "every event stream NodeStart(Block) <inner> NodeEnd with a balanced inner sequence of <= %d events, run through the real LuaTreeBuilder::build; all node / token kinds symbolic" % maxops}
    out.outside = ["the lexer's choice of lexeme boundaries and lexemes (whole-lexer symbolic runs do not terminate; see DESIGN.md)",
                   "the grammar (which node events it emits, recovery paths), doc-comment parsing (LuaDocParser; enable_emmylua_doc = true)", "rowan's storage of token texts (build_rowan_green is mirrored, not executed)",
                   "operation sequences longer than the bound"]
    out.assumptions = ["event streams have the shape the grammar gives them: NodeStart(Block) <inner> NodeEnd (parse_chunk); G1: a nested Block directly follows the non-trivia keyword token that "
                       "introduces it; G2 (losslessness only): before the first token is eaten at most one open node is closed by error recovery, and the token after it is the unexpected, non-trivia one",
                       "Vec / slice / iterator operations follow their std contracts (exact models in mirsmt/vecmodel.py)",
                       "finish() emits the first top-level child depth-first (read from the source; the walk is mirrored in the check)",
                       "Kani's std model for the Reader harnesses"]
    pk.run_reader(out)
    mc = mflow.MContext(out)
    pending = []
    try:
        pending = pk.builder_obligations(out, mc, True, maxops)
        pending += pk.parser_obligations(out, mc, True, 3 if out.tier == "quick" else 5)
        pending += pk.marker_obligation(out, mc, 4 if out.tier == "quick" else 6)
    except (symex.Unsupported, RuntimeError, KeyError, ValueError, IndexError, AttributeError, TypeError) as e:
        import traceback
        out.fatal = "engine M could not encode the current source: %r\n%s" % (e, traceback.format_exc()[-1500:])
    replay(out, pending)
    mc.finish()
