"""Kani harnesses on LuaDocument (crate kani/doc, family `check`): shared by C21, C22 and C23."""
import shapes as S
from kflow import HDef, run_k

FUNCS = ["LuaDocument::to_lsp_range", "LuaDocument::to_lsp_position", "LuaDocument::to_rowan_range",
         "LuaDocument::get_line_col", "LuaDocument::get_offset", "LineIndex::*"]


def hdefs(tier, roles):
    hs = []
    shp = S.shapes(2, widths=(1, 2, 4)) if tier == "quick" else S.shapes(3, widths=(1, 2, 3, 4))
    if tier == "quick" and "doc_ranges" in roles:
        # the document layer only forwards to LineIndex (covered per shape by the property's own harnesses); what it
        # adds is how two conversions are combined, which needs a multi-byte character to matter
        shp = [s for s in shp if any(w > 1 for w in s)]
    body = "doc_ranges_lite" if tier == "quick" else "doc_ranges"
    for s in shp:
        L, K, n, arr = S.byte_len(s), len(s), S.name(s), S.rust_array(s)
        uw = L + 3
        ctx = {"has_astral": 4 in s}
        b = {"shape": list(s), "bytes": L, "unwind": uw}
        if "doc_ranges" in roles:
            bb = dict(b, symbolic="class of every 1-byte char (LF | other), both range ends (char indices)")
            hs.append(HDef("doc_rng_" + n, "doc_ranges",
                           "#[kani::proof] #[kani::unwind(%d)] pub fn doc_rng_%s() { %s::<%d, %d>(%s) }" % (uw, n, body, L, K, arr),
                           "LuaDocument::to_lsp_range on every char-boundary range: Some, start<=end, lines exist, characters are UTF-16 "
                           "lengths of the line prefixes and within the line, agrees with to_lsp_position, to_rowan_range inverts it",
                           bb, ctx, FUNCS))
        if "doc_client_range" in roles:
            bb = dict(b, symbolic="class of every 1-byte char, the four u32 of an ordered client range")
            hs.append(HDef("doc_cli_" + n, "doc_client_range",
                           "#[kani::proof] #[kani::unwind(%d)] pub fn doc_cli_%s() { doc_client_range::<%d, %d>(%s) }" % (uw, n, L, K, arr),
                           "LuaDocument::to_rowan_range on every ordered client range (u32^4): missing line -> None, else an in-document "
                           "range and no panic in TextRange::new",
                           bb, ctx, FUNCS))
    return hs


def run_doc(out, roles):
    hs = hdefs(out.tier, roles)
    out.bounds["document_api"] = ("LuaDocument harnesses: every byte-width shape of <= %d characters over %s"
                                  % ((2, "{1,2,4}") if out.tier == "quick" else (3, "{1,2,3,4}")))
    # thorough: the Kani driver itself keeps the output of all harnesses and outgrew a 12 GB address-space limit
    # (the harnesses in flight were lost: exit 2), so the limit is wider and fewer solvers run at once
    quick = out.tier == "quick"
    run_k(out, "doc", "check", hs, jobs=14 if quick else 10, harness_timeout=1500 if quick else 3600,
          overall_timeout=3600 if quick else 6 * 3600, mem_gb=12 if quick else 32, tag="doc")
