"""C20 — Configuration controls which diagnostics are reported and how (engine M + K)."""
import re
import time

import z3

import mflow
import srcinfo
import symex
from core import Obligation, match_known
from mflow import KeyB

CA = "/repo/crates/emmylua_code_analysis/src"


def _obs(path, ex, name, finder):
    """z3 Bool of an observation on this path, or a fresh free Bool when the path never asked"""
    e = finder(path)
    if e is not None and isinstance(e["result"], symex.BoolV):
        return e["result"].term, True
    return z3.Bool("unobserved!" + name), False


def precedence(out, mc):
    """M-C20-a: DiagnosticContext::is_checker_enable_by_code"""
    fns = mc.fns("emmylua_code_analysis", r"is_checker_enable_by_code|fn .*checker::<impl[^>]*>::(add_diagnostic|get_severity|should_report_diagnostic)\(")
    fn = [f for f in fns if f.name.endswith("is_checker_enable_by_code")]
    if len(fn) != 1:
        raise RuntimeError("is_checker_enable_by_code: %d candidates in MIR" % len(fn))
    fn = fn[0]
    cfg_fields = srcinfo.struct_fields(CA + "/diagnostic/lua_diagnostic_config.rs", "LuaDiagnosticConfig")
    ctx_fields = srcinfo.struct_fields(CA + "/diagnostic/checker/mod.rs", "DiagnosticContext")
    i_cfg = ctx_fields.index("config")
    i_en, i_dis = cfg_fields.index("workspace_enabled"), cfg_fields.index("workspace_disabled")
    ex = symex.Executor(fns)
    t0 = time.time()
    paths = ex.run(fn)
    sym_s = time.time() - t0
    rets = [p for p in paths if p.kind == "return"]
    other = [p for p in paths if p.kind != "return"]
    code_key = KeyB.arg(2).ref()            # &DiagnosticCode argument
    cfg = KeyB.arg(1).field(i_cfg).deref()
    k_dis = cfg.field(i_dis).ref()
    k_en = cfg.field(i_en).ref()

    def f_contains(k):
        return lambda p: mflow.find_event(p, r"HashSet::contains$", lambda e: e["akeys"][0] == k and e["akeys"][1] == code_key)

    finders = {
        "file_enabled": lambda p: mflow.find_event(p, r"DiagnosticIndex::is_file_enabled$", lambda e: e["akeys"][2] == code_key),
        "file_disabled": lambda p: mflow.find_event(p, r"DiagnosticIndex::is_file_disabled$", lambda e: e["akeys"][2] == code_key),
        "is_meta": lambda p: mflow.find_event(p, r"LuaModuleIndex::is_meta_file$"),
        "ws_disabled": f_contains(k_dis),
        "ws_enabled": f_contains(k_en),
        "default_enable": lambda p: mflow.find_event(p, r"is_code_default_enable$", lambda e: e["akeys"][0] == code_key),
    }
    clauses = [
        ("disable_wins_unless_file_enable", "code in diagnostics.disable and no ---@diagnostic enable  =>  not reported",
         lambda o, r: z3.Implies(z3.And(o["ws_disabled"], z3.Not(o["file_enabled"])), z3.Not(r))),
        ("enables_reported_even_if_off_by_default", "code in diagnostics.enables, not disabled anywhere, not a meta file  =>  reported",
         lambda o, r: z3.Implies(z3.And(o["ws_enabled"], z3.Not(o["ws_disabled"]), z3.Not(o["file_disabled"]), z3.Not(o["is_meta"])), r)),
        ("meta_files_report_nothing", "meta file  =>  not reported",
         lambda o, r: z3.Implies(o["is_meta"], z3.Not(r))),
        ("file_enable_overrides_disable", "---@diagnostic enable in a non-meta file  =>  reported",
         lambda o, r: z3.Implies(z3.And(o["file_enabled"], z3.Not(o["is_meta"])), r)),
        ("default_when_no_switch", "no switch set  =>  reported iff the code is on by default for the language level",
         lambda o, r: z3.Implies(z3.And(*[z3.Not(o[n]) for n in ("file_enabled", "file_disabled", "is_meta", "ws_disabled", "ws_enabled")]),
                                 r == o["default_enable"])),
        ("file_disable_respected", "---@diagnostic disable at file level, no enable  =>  not reported",
         lambda o, r: z3.Implies(z3.And(o["file_disabled"], z3.Not(o["file_enabled"])), z3.Not(r))),
    ]
    results = []
    for cid, text, mk in clauses:
        ob = Obligation("precedence/" + cid, "M", text,
                        {"function": "DiagnosticContext::is_checker_enable_by_code", "paths": len(rets),
                         "free": "every observation (6 Booleans) free; unobserved ones unconstrained"},
                        [fn.name])
        out.add(ob)
        t1 = time.time()
        if other or ex.unsupported:
            ob.status = "inconclusive"
            ob.detail = "non-returning paths: %s" % [(p.kind, p.info) for p in other][:3]
            continue
        bad = None
        reached = False
        for p in rets:
            o = {}
            for n, fnd in finders.items():
                o[n], _ = _obs(p, ex, n, fnd)
            r = p.ret.term
            # witness: the clause's antecedent is reachable on some path
            res, model = mc.check(list(p.pc) + [z3.Not(mk(o, r))], cid)
            if res == "sat":
                bad = (p, {n: bool(z3.is_true(model.eval(o[n], model_completion=True))) for n in o},
                       bool(z3.is_true(model.eval(r, model_completion=True))))
                break
            if res == "unknown":
                ob.status = "inconclusive"
                ob.detail = "solver returned unknown / solvers disagree"
                break
            reached = True
        ob.solver_s = time.time() - t1
        ob.witness = reached or bad is not None
        if ob.status == "inconclusive":
            continue
        if bad is None:
            ob.status = "pass"
        else:
            ob.status = "pending"
            ob.extra = {"valuation": bad[1], "result": bad[2]}
            results.append((ob, cid, bad))
    out.extra_cov.setdefault("symbolic_execution", []).append(
        {"function": fn.name, "blocks": len(fn.blocks), "paths": len(paths), "seconds": round(sym_s, 2), **ex.stats})
    return results


def gating(out, mc):
    """M-C20-b: add_diagnostic only pushes when enabled and not suppressed; severity from config else default"""
    fns = mc.fns("emmylua_code_analysis", r"is_checker_enable_by_code|fn .*checker::<impl[^>]*>::(add_diagnostic|get_severity|should_report_diagnostic)\(")
    fn = [f for f in fns if re.search(r"checker::<impl[^>]*>::add_diagnostic$", f.name)]
    if len(fn) != 1:
        raise RuntimeError("add_diagnostic: %d candidates" % len(fn))
    fn = fn[0]
    cfg_fields = srcinfo.struct_fields(CA + "/diagnostic/lua_diagnostic_config.rs", "LuaDiagnosticConfig")
    ctx_fields = srcinfo.struct_fields(CA + "/diagnostic/checker/mod.rs", "DiagnosticContext")
    i_cfg, i_diags = ctx_fields.index("config"), ctx_fields.index("diagnostics")
    i_sev = cfg_fields.index("severity")
    ex = symex.Executor(fns)
    ex.inline = [r"DiagnosticContext::<'_>::get_severity$"]
    t0 = time.time()
    paths = ex.run(fn)
    sym_s = time.time() - t0
    rets = [p for p in paths if p.kind == "return"]
    other = [p for p in paths if p.kind != "return"]
    out.extra_cov.setdefault("symbolic_execution", []).append(
        {"function": fn.name, "blocks": len(fn.blocks), "paths": len(paths), "seconds": round(sym_s, 2), **ex.stats})
    obs = []
    ob1 = out.add(Obligation("gating/push_only_when_enabled_and_not_suppressed", "M",
                             "every path of add_diagnostic that pushes a Diagnostic asked is_checker_enable_by_code(code) and "
                             "should_report_diagnostic(code, range) for ITS code/range and both answered true; exactly one push",
                             {"function": "DiagnosticContext::add_diagnostic", "paths": len(rets)}, [fn.name]))
    ob2 = out.add(Obligation("gating/severity_from_config_else_default", "M",
                             "the pushed Diagnostic.severity is Some(config.severity[code]) when present, else Some(get_default_severity(code)); "
                             "its code is the name of the code argument and its range is translate_range(range) or 0:0",
                             {"function": "DiagnosticContext::add_diagnostic + get_severity (inlined)", "paths": len(rets)}, [fn.name]))
    if other:
        for ob in (ob1, ob2):
            ob.status = "inconclusive"
            ob.detail = "non-returning paths: %s" % [(p.kind, p.info) for p in other][:3]
        return []
    code_ref = None
    fails1, fails2 = [], []
    pushes_seen = 0
    for p in rets:
        pushes = [e for e in p.trace if re.search(r"Vec::push$", e.get("short", ""))]
        en = mflow.find_event(p, r"DiagnosticContext::is_checker_enable_by_code$")
        sr = mflow.find_event(p, r"DiagnosticContext::should_report_diagnostic$")
        if not pushes:
            continue
        pushes_seen += 1
        if len(pushes) != 1:
            fails1.append("path pushes %d diagnostics" % len(pushes))
            continue
        push = pushes[0]
        # target vector must be self.diagnostics
        if push["akeys"][0] != KeyB.arg(1).field(i_diags).ref():
            fails1.append("push target is %s, not self.diagnostics" % push["akeys"][0])
        if en is None or sr is None:
            fails1.append("push without asking %s" % ("is_checker_enable_by_code" if en is None else "should_report_diagnostic"))
            continue
        # both must be implied true by the path condition
        for name, e in (("is_checker_enable_by_code", en), ("should_report_diagnostic", sr)):
            res, _ = mc.check(list(p.pc) + [z3.Not(e["result"].term)], "gate")
            if res != "unsat":
                fails1.append("push reachable with %s == false" % name)
        # the questions were about this call's code and range
        want_code = "&" + KeyB.argval(2).opq()
        want_range = "&" + KeyB.argval(3).opq()
        if en["akeys"][1] != want_code:
            fails1.append("is_checker_enable_by_code asked about %s, not the code argument" % en["akeys"][1])
        if sr["akeys"][1] != want_code or sr["akeys"][2] != want_range:
            fails1.append("should_report_diagnostic asked about (%s, %s), not (code, range)" % (sr["akeys"][1], sr["akeys"][2]))
        diag = push["args"][1]
        if not isinstance(diag, symex.Agg) or not diag.names:
            fails2.append("pushed value is not a Diagnostic aggregate")
            continue
        fld = dict(zip(diag.names, diag.fields))
        sev = fld.get("severity")
        get = mflow.find_event(p, r"HashMap::get$", lambda e: e["akeys"][0] == KeyB.arg(1).field(i_cfg).deref().field(i_sev).ref())
        dflt = mflow.find_event(p, r"get_default_severity$")
        if get is None:
            fails2.append("severity map of the configuration was not consulted")
            continue
        sk = ex.deep_key(p.state, sev)
        d = ex.discriminant(p.state, get["result"])
        res_some, _ = mc.check(list(p.pc) + [d.term != z3.BitVecVal(1, 64)], "sev")
        if res_some == "unsat":
            # configured severity must be used
            payload = symex.LazyPayload(ex, p.state, get["result"], "Some")[0]
            want = "Option:Some(%s)" % ex.deep_key(p.state, ex.deref(p.state, payload))
            if sk != want:
                fails2.append("config has a severity for the code but the diagnostic carries %s" % sk)
        else:
            if dflt is None or sk != "Option:Some(%s)" % ex.deep_key(p.state, dflt["result"]):
                fails2.append("no configured severity: expected Some(get_default_severity(code)), got %s" % sk)
        code = fld.get("code")
        ck = ex.deep_key(p.state, code)
        if "get_name" not in ck:
            fails2.append("Diagnostic.code is not derived from code.get_name(): %s" % ck)
        rng = ex.deep_key(p.state, fld.get("range"))
        chain = [c.split("::")[-1] for c in re.findall(r"\(call,([^,]*),", rng)]
        if chain[:2] != ["unwrap_or", "translate_range"] or any(c not in ("unwrap_or", "translate_range", "get_vfs", "get_db") for c in chain):
            fails2.append("Diagnostic.range is not exactly translate_range(range).unwrap_or(0:0) (call chain: %s)" % chain[:4])
        if "opq:(arg,3)" not in rng:
            fails2.append("Diagnostic.range is not derived from the range argument")
    ob1.witness = ob2.witness = pushes_seen > 0
    for ob, fails in ((ob1, fails1), (ob2, fails2)):
        if pushes_seen == 0:
            ob.status = "pending"
            ob.detail = "no path of add_diagnostic pushes a diagnostic"
            fails.append(ob.detail)
        elif fails:
            ob.status = "pending"
            ob.detail = "; ".join(sorted(set(fails)))
        else:
            ob.status = "pass"
    return [(ob, fails) for ob, fails in ((ob1, fails1), (ob2, fails2)) if fails]


def file_gate(out, mc):
    """M-C20-b': LuaDiagnostic::diagnose_file — enable=false and non-main workspaces report nothing"""
    fns = mc.fns("emmylua_code_analysis", r"lua_diagnostic::<impl[^>]*>::diagnose_file\(")
    cand = [f for f in fns if f.name.endswith("::diagnose_file")]
    if len(cand) != 1:
        raise RuntimeError("diagnose_file: %d candidates" % len(cand))
    fn = cand[0]
    fields = srcinfo.struct_fields(CA + "/diagnostic/lua_diagnostic.rs", "LuaDiagnostic")
    i_enable = fields.index("enable")
    ex = symex.Executor(fns)
    t0 = time.time()
    paths = ex.run(fn)
    sym_s = time.time() - t0
    out.extra_cov.setdefault("symbolic_execution", []).append(
        {"function": fn.name, "blocks": len(fn.blocks), "paths": len(paths), "seconds": round(sym_s, 2), **ex.stats})
    rets = [p for p in paths if p.kind == "return"]
    other = [p for p in paths if p.kind != "return"]
    ob = out.add(Obligation("file_gate/enable_false_and_non_main_report_nothing", "M",
                            "check_file runs only if self.enable is true and the file's workspace is absent or main; otherwise None is returned and no checker runs",
                            {"function": "LuaDiagnostic::diagnose_file", "paths": len(rets)}, [fn.name]))
    if other:
        ob.status = "inconclusive"
        ob.detail = "non-returning paths: %s" % [(p.kind, p.info) for p in other][:3]
        return []
    fails = []
    ran = 0
    enable_t = None
    for p in rets:
        chk = mflow.find_event(p, r"check_file$")
        # the enable flag as read on this path
        en = ex.get_path(p.state, ex.deref(p.state, p.state.frames[0]["_1"]), [("field", i_enable, "bool")])
        if not isinstance(en, symex.BoolV):
            fails.append("enable flag is not a bool in the encoding")
            continue
        if chk is not None:
            ran += 1
            res, _ = mc.check(list(p.pc) + [z3.Not(en.term)], "enable")
            if res != "unsat":
                fails.append("checkers run although diagnostics.enable == false")
            ws = mflow.find_event(p, r"LuaModuleIndex::get_workspace_id$")
            if ws is None:
                fails.append("checkers run without looking at the file's workspace")
            else:
                d = ex.discriminant(p.state, ws["result"])
                main = mflow.find_event(p, r"WorkspaceId::is_main$")
                cond_none = d.term == z3.BitVecVal(0, 64)
                ok = cond_none if main is None else z3.Or(cond_none, main["result"].term)
                res, _ = mc.check(list(p.pc) + [z3.Not(ok)], "ws")
                if res != "unsat":
                    fails.append("checkers run for a file of a non-main workspace (library / std)")
            if not (isinstance(p.ret, symex.Agg) and p.ret.variant == "Some"):
                fails.append("checkers ran but the result is not Some(diagnostics)")
        else:
            if not (isinstance(p.ret, symex.Agg) and p.ret.variant == "None") and "get_semantic_model" not in str([e.get("short") for e in p.trace]):
                fails.append("no checker ran but the result is not None")
    ob.witness = ran > 0
    if ran == 0:
        fails.append("no path reaches check_file")
    if fails:
        ob.status = "pending"
        ob.detail = "; ".join(sorted(set(fails)))
        return [(ob, fails)]
    ob.status = "pass"
    return []


def _meta_writers(mc):
    """LuaModuleIndex methods (from the MIR of the current tree) that can leave a file's ModuleInfo with
    is_meta == false: they build a ModuleInfo, insert into / remove from file_module_map, assign `false`
    to the flag, or call such a method.  Everything else taking &mut LuaModuleIndex keeps the flag."""
    path = mc.mir("emmylua_code_analysis")
    src = open(path).read()
    i_meta = srcinfo.struct_fields(CA + "/db_index/module/module_info.rs", "ModuleInfo").index("is_meta")
    bodies = {}
    for m in re.finditer(r"^fn db_index::module::<impl at [^>]*>::(\w+)\((_1: &mut db_index::module::LuaModuleIndex[^\n]*)\{\n(.*?)^\}", src, re.S | re.M):
        bodies[m.group(1)] = m.group(3)
    direct = {}
    for name, b in bodies.items():
        why = []
        if re.search(r"= (?:db_index::module::)?(?:module_info::)?ModuleInfo \{", b):
            why.append("builds a ModuleInfo")
        if re.search(r"HashMap::<(?:vfs::)?file_id::FileId, (?:db_index::module::)?module_info::ModuleInfo>::(insert|remove)", b):
            why.append("inserts into / removes from file_module_map")
        if re.search(r"\.%d: bool\) = const false" % i_meta, b):
            why.append("assigns false to is_meta")
        direct[name] = why
    may = {n for n, w in direct.items() if w}
    changed = True
    while changed:
        changed = False
        for name, b in bodies.items():
            if name in may:
                continue
            for other in list(may):
                if re.search(r">::%s\(" % re.escape(other), b):
                    may.add(name)
                    direct[name] = ["calls " + other]
                    changed = True
                    break
    return bodies, may, direct, i_meta


def meta_flag(out, mc):
    """M-C20-e: how a file gets (and keeps) the meta flag that gate (b) reads.
    e1 set_meta writes true into file_module_map[file_id].is_meta; e2 is_meta_file returns exactly that field;
    e3 on every path of analyze_doc_tag_meta, a set_meta(file_id) follows the last LuaModuleIndex call that can
    clear the flag (e.g. add_module_by_module_path re-creating the ModuleInfo for `---@meta name`)."""
    bodies, may, why, i_meta = _meta_writers(mc)
    res = []
    # e1 / e2 ---------------------------------------------------------------------------------------
    ob1 = out.add(Obligation("meta_flag/set_meta_and_is_meta_file_agree", "M",
                             "set_meta(f) stores true in the is_meta field of the entry HashMap::get_mut(&f) yields; is_meta_file(f) returns that "
                             "field of the entry HashMap::get(f) yields and false when there is no entry",
                             {"functions": ["LuaModuleIndex::set_meta", "LuaModuleIndex::is_meta_file"]}, []))
    fails1 = []
    t0 = time.time()
    for nm in ("set_meta", "is_meta_file"):
        fns = mc.fns("emmylua_code_analysis", r"db_index::module::<impl[^>]*>::%s\(" % nm)
        cand = [f for f in fns if f.name.endswith("::" + nm)]
        if len(cand) != 1:
            raise RuntimeError("%s: %d candidates" % (nm, len(cand)))
        fn = cand[0]
        ob1.functions.append(fn.name)
        ex = symex.Executor(fns)
        paths = ex.run(fn)
        if any(p.kind != "return" for p in paths) or len(paths) != 2:
            fails1.append("%s: unexpected path structure %s" % (nm, [(p.kind, p.info) for p in paths]))
            continue
        for p in paths:
            ev = mflow.find_event(p, r"HashMap::get_mut$" if nm == "set_meta" else r"HashMap::get$")
            if ev is None:
                fails1.append("%s does not look the file up in file_module_map" % nm)
                continue
            d = ex.discriminant(p.state, ev["result"])
            is_some, _ = mc.check(list(p.pc) + [d.term != z3.BitVecVal(1, 64)], nm)
            some = is_some == "unsat"
            if nm == "set_meta":
                wrote = False
                for cid, cell in p.state.heap.items():
                    if isinstance(cell, symex.Opaque) and "get_mut" in symex.kfmt(cell.k):
                        w = cell.over.get(("field", i_meta))
                        if isinstance(w, symex.BoolV) and z3.is_true(z3.simplify(w.term)):
                            wrote = True
                if some and not wrote:
                    fails1.append("set_meta finds the entry but does not store true in is_meta")
                if some:
                    ob1.witness = True
            else:
                if some:
                    org = ex.term_origins(p.ret.term) if isinstance(p.ret, symex.BoolV) else []
                    if not (len(org) == 1 and "HashMap::get" in org[0] and org[0].rstrip("_) ").endswith(str(i_meta))):
                        fails1.append("is_meta_file returns something other than the entry's is_meta field: %s" % org[:2])
                else:
                    if not (isinstance(p.ret, symex.BoolV) and z3.is_false(z3.simplify(p.ret.term))):
                        fails1.append("is_meta_file without an entry does not return false")
    ob1.solver_s = time.time() - t0
    if fails1:
        ob1.status = "pending"
        ob1.detail = "; ".join(sorted(set(fails1)))
        res.append((ob1, fails1))
    else:
        ob1.status = "pass"
    # e3 ----------------------------------------------------------------------------------------------
    fns = mc.fns("emmylua_code_analysis", r"analyze_doc_tag_meta")
    cand = [f for f in fns if f.name.endswith("analyze_doc_tag_meta")]
    if len(cand) != 1:
        raise RuntimeError("analyze_doc_tag_meta: %d candidates" % len(cand))
    fn = cand[0]
    ex = symex.Executor(fns)
    t0 = time.time()
    paths = ex.run(fn)
    out.extra_cov.setdefault("symbolic_execution", []).append(
        {"function": fn.name, "blocks": len(fn.blocks), "paths": len(paths), "seconds": round(time.time() - t0, 2), **ex.stats})
    ob2 = out.add(Obligation("meta_flag/meta_tag_leaves_flag_set", "M",
                             "on every path of analyze_doc_tag_meta a set_meta(file_id) is executed, with the analyzer's own file id, after the last "
                             "LuaModuleIndex call that can clear the flag (%s)" % ", ".join(sorted(may)),
                             {"function": "analyze_doc_tag_meta", "paths": len(paths), "version_list_entries": "<= 2 (loop bound 3; longer lists are cut after the flag handling)"},
                             [fn.name]))
    ob2.extra["flag_clearing_methods"] = {n: why[n] for n in sorted(may)}
    fails2 = []
    named = 0
    for p in paths:
        if p.kind not in ("return", "cut"):
            fails2.append("non-returning path: %s %s" % (p.kind, p.info))
            continue
        calls = [e for e in p.trace if "LuaModuleIndex::" in e.get("short", e["callee"])]
        names = [e.get("short", e["callee"]).split("LuaModuleIndex::")[-1] for e in calls]
        fid = mflow.find_event(p, r"DeclAnalyzer::get_file_id$")
        last_clear = max([i for i, n in enumerate(names) if n in may], default=-1)
        if last_clear >= 0:
            named += 1
        sets = [i for i, n in enumerate(names) if n == "set_meta" and i > last_clear]
        if not sets:
            fails2.append("a path ends with the flag possibly cleared: module-index calls %s" % names)
            continue
        e = calls[sets[-1]]
        a = e["akeys"][1] if len(e.get("akeys", [])) > 1 else None
        if fid is None or a is None or a != ex.deep_key(p.state, fid["result"]):
            fails2.append("set_meta is called with something other than the analyzer's file id")
    ob2.witness = named > 0
    if named == 0:
        fails2.append("no path reaches a flag-clearing call (the named `---@meta name` branch is gone?)")
    ob2.solver_s = time.time() - t0
    if fails2:
        ob2.status = "pending"
        ob2.detail = "; ".join(sorted(set(fails2)))[:600]
        res.append((ob2, fails2))
    else:
        ob2.status = "pass"
    return res


def config_plumbing(out, mc):
    """M-C20-d: LuaDiagnosticConfig::new carries diagnostics.disable / enables / severity over unfiltered"""
    fns = mc.fns("emmylua_code_analysis", r"lua_diagnostic_config::<impl[^>]*>::new\(")
    cand = [f for f in fns if f.name.endswith("::new")]
    if len(cand) != 1:
        raise RuntimeError("LuaDiagnosticConfig::new: %d candidates" % len(cand))
    fn = cand[0]
    rc = srcinfo.struct_fields("/repo/crates/emmylua_code_analysis/src/config/mod.rs", "Emmyrc")
    df = srcinfo.struct_fields("/repo/crates/emmylua_code_analysis/src/config/configs/diagnostics.rs", "EmmyrcDiagnostic")
    i_diag = rc.index("diagnostics")
    ex = symex.Executor(fns, max_visits=3)
    t0 = time.time()
    paths = ex.run(fn)
    sym_s = time.time() - t0
    out.extra_cov.setdefault("symbolic_execution", []).append(
        {"function": fn.name, "blocks": len(fn.blocks), "paths": len(paths), "seconds": round(sym_s, 2), **ex.stats})
    rets = [p for p in paths if p.kind == "return"]
    ob = out.add(Obligation("config/sets_and_severity_carried_over_unfiltered", "M",
                            "LuaDiagnosticConfig::new: workspace_disabled / workspace_enabled are collected from diagnostics.disable / enables through "
                            "iter-clone-collect only, and every (code, severity) entry the configuration iterator yields is inserted into the severity map "
                            "unconditionally with that code and that severity",
                            {"function": "LuaDiagnosticConfig::new", "paths": len(rets), "loop": "severity entries <= 2 (loop unrolled, longer maps cut)"},
                            [fn.name]))
    fails = []
    benign = {"iter", "cloned", "copied", "collect", "into_iter"}
    norm = lambda t: t
    src_key = lambda name: symex.kfmt((((("arg", 1), "*"), i_diag), df.index(name)))
    seen_iters = set()
    for p in rets:
        r = p.ret
        if not isinstance(r, symex.Agg) or not r.names:
            fails.append("result is not a LuaDiagnosticConfig aggregate")
            continue
        fld = dict(zip(r.names, r.fields))
        for field, src in (("workspace_disabled", "disable"), ("workspace_enabled", "enables")):
            k = norm(ex.deep_key(p.state, fld[field]))
            callees = [c.split("::")[-1] for c in re.findall(r"\(call,([^,]*),", k)]
            if src_key(src) not in k:
                fails.append("%s is not built from diagnostics.%s" % (field, src))
            other = [df[j] for j in range(len(df)) if df[j] != src and symex.kfmt((((("arg", 1), "*"), i_diag), j)) in k]
            if other:
                fails.append("%s also depends on diagnostics.%s" % (field, ",".join(other)))
            extra = [c for c in callees if c not in benign]
            if extra:
                fails.append("%s is built through %s (filtering/transforming adapter)" % (field, ",".join(extra)))
        nexts = [e for e in p.trace if re.search(r"::next$", e.get("short", "")) and "hash_map" in e["callee"]]
        somes = []
        for e in nexts:
            d = ex.discriminant(p.state, e["result"])
            res, _ = mc.check(list(p.pc) + [d.term != z3.BitVecVal(1, 64)], "next")
            if res == "unsat":
                somes.append(e)
        inserts = [e for e in p.trace if re.search(r"HashMap::insert$", e.get("short", ""))]
        seen_iters.add(len(somes))
        if len(inserts) != len(somes):
            fails.append("%d severity entries yielded but %d inserted" % (len(somes), len(inserts)))
            continue
        for e, ins in zip(somes, inserts):
            pay = symex.LazyPayload(ex, p.state, e["result"], "Some")[0]
            kk = ex.deep_key(p.state, ex.deref(p.state, ex.child(p.state, pay, ("field", 0, "&DiagnosticCode"))))
            vv = ex.deep_key(p.state, ex.deref(p.state, ex.child(p.state, pay, ("field", 1, "&DiagnosticSeveritySetting"))))
            if ins["akeys"][1] != kk:
                fails.append("severity inserted under a different code than the entry's")
            if vv not in ins["akeys"][2]:
                fails.append("inserted severity does not come from the entry's value")
        sev = ex.deep_key(p.state, fld["severity"])
        if inserts and "havoc" not in sev and "HashMap::new" not in sev:
            fails.append("result.severity is not the map the entries were inserted into")
    ob.witness = max(seen_iters or [0]) >= 1
    if not rets:
        fails.append("no returning path")
    if fails:
        ob.status = "pending"
        ob.detail = "; ".join(sorted(set(fails)))
        return [(ob, fails)]
    ob.status = "pass"
    return []


# ---------------------------------------------------------------------------------------------
# native replay

TRIG = {  # code -> (source line that triggers it, default enabled?)
    "undefined-global": ("print(zzz_undefined_name)", True),
    "unknown-doc-tag": ("---@foobar", False),
}


def scenario_for(val):
    code = "undefined-global" if val.get("default_enable", True) else "unknown-doc-tag"
    lines = []
    if val.get("is_meta"):
        lines.append("---@meta")
    if val.get("file_enabled"):
        lines.append("---@diagnostic enable: " + code)
    if val.get("file_disabled"):
        lines.append("---@diagnostic disable: " + code)
    lines.append(TRIG[code][0])
    lines.append("local _ok = 1")
    emmyrc = {"diagnostics": {"disable": [code] if val.get("ws_disabled") else [],
                              "enables": [code] if val.get("ws_enabled") else []}}
    return code, {"kind": "diagnose", "target": "t.lua", "emmyrc": emmyrc,
                  "files": [{"name": "t.lua", "text": "\n".join(lines) + "\n"}]}


def replay_precedence(out, ob, cid, bad):
    p, val, result = bad
    kf = match_known(out.prop, "precedence", cid, val)
    code, sc = scenario_for(val)
    rec = {"property": out.prop, "role": "precedence", "clause": cid, "valuation": val, "model_result": result,
           "scenario": sc, "expect": {"code": code, "reported": result}}
    res = mflow.native_replay(sc)
    rec["native"] = res
    if "error" in res:
        ob.status = "inconclusive"
        ob.detail = "native replay failed: %s" % res["error"]
        return
    reported = any(d["code"] == code for d in res.get("diagnostics", []))
    rec["native_reported"] = reported
    rec["violates"] = reported == result
    path = mflow.write_replay(out, "precedence_" + cid, rec)
    ob.counterexamples = [{"valuation": val, "model_result": result, "native_reported": reported, "replay": path}]
    if reported != result:
        ob.status = "inconclusive"
        ob.detail = "counterexample %s did not reproduce natively (model says reported=%s, real code reported=%s)" % (val, result, reported)
        return
    if kf:
        ob.status = "known"
        out.known("%s [precedence/%s: %s]" % (kf["what"], cid, val))
    else:
        ob.status = "violation"
        ob.detail = "clause violated for %s: reported=%s (confirmed natively)" % (val, result)
        out.violation(path, "(precedence/%s %s)" % (cid, val))


BATTERY = [
    # (id, scenario, predicate over native result -> violates?, description)
    ("enable_false", {"kind": "diagnose", "target": "t.lua", "emmyrc": {"diagnostics": {"enable": False}},
                      "files": [{"name": "t.lua", "text": "print(zzz_undefined_name)\n"}]},
     lambda r: len(r.get("diagnostics", [])) > 0, "diagnostics.enable=false must report nothing"),
    ("severity_override", {"kind": "diagnose", "target": "t.lua",
                           "emmyrc": {"diagnostics": {"severity": {"undefined-global": "information"}}},
                           "files": [{"name": "t.lua", "text": "print(zzz_undefined_name)\n"}]},
     lambda r: not any(d["code"] == "undefined-global" and d["severity"] == "Information" for d in r.get("diagnostics", [])),
     "severity override must be used"),
    ("severity_default", {"kind": "diagnose", "target": "t.lua", "emmyrc": {"diagnostics": {}},
                          "files": [{"name": "t.lua", "text": "print(zzz_undefined_name)\n"}]},
     lambda r: not any(d["code"] == "undefined-global" and d["severity"] == "Error" for d in r.get("diagnostics", [])),
     "default severity of undefined-global is Error"),
    ("severity_on_reenabled", {"kind": "diagnose", "target": "t.lua",
                               "emmyrc": {"diagnostics": {"disable": ["undefined-global"], "severity": {"undefined-global": "hint"}}},
                               "files": [{"name": "t.lua", "text": "---@diagnostic enable: undefined-global\nprint(zzz_undefined_name)\n"}]},
     lambda r: not any(d["code"] == "undefined-global" and d["severity"] == "Hint" for d in r.get("diagnostics", [])),
     "severity override applies to a code re-enabled by the file"),
    ("enables_off_by_default_code", {"kind": "diagnose", "target": "t.lua",
                                     "emmyrc": {"diagnostics": {"enables": ["unknown-doc-tag"]}},
                                     "files": [{"name": "t.lua", "text": "---@foobar\nlocal _x = 1\n"}]},
     lambda r: not any(d["code"] == "unknown-doc-tag" for d in r.get("diagnostics", [])),
     "a code in diagnostics.enables is reported even though it is off by default"),
    ("meta_bare", {"kind": "diagnose", "target": "m.lua", "emmyrc": {},
                   "files": [{"name": "m.lua", "text": "---@meta\nprint(zzz_undefined_name)\n"}]},
     lambda r: len(r.get("diagnostics", [])) > 0, "a `---@meta` file reports nothing"),
    ("meta_named", {"kind": "diagnose", "target": "m.lua", "emmyrc": {},
                    "files": [{"name": "m.lua", "text": "---@meta socket.core\nprint(zzz_undefined_name)\n"}]},
     lambda r: len(r.get("diagnostics", [])) > 0, "a `---@meta name` file reports nothing"),
    ("meta_named_versioned", {"kind": "diagnose", "target": "m.lua", "emmyrc": {},
                              "files": [{"name": "m.lua", "text": "---@meta my.mod\n---@version 5.4\nprint(zzz_undefined_name)\n"}]},
     lambda r: len(r.get("diagnostics", [])) > 0, "a versioned `---@meta name` file reports nothing"),
    ("meta_hidden", {"kind": "diagnose", "target": "m.lua", "emmyrc": {},
                     "files": [{"name": "m.lua", "text": "---@meta _\nprint(zzz_undefined_name)\n"}]},
     lambda r: len(r.get("diagnostics", [])) > 0, "a `---@meta _` file reports nothing"),
    ("disabled_code_not_reported", {"kind": "diagnose", "target": "t.lua",
                                    "emmyrc": {"diagnostics": {"disable": ["undefined-global"]}},
                                    "files": [{"name": "t.lua", "text": "print(zzz_undefined_name)\nlocal x = 1\n"}]},
     lambda r: any(d["code"] == "undefined-global" for d in r.get("diagnostics", [])) or not any(d["code"] == "unused" for d in r.get("diagnostics", [])),
     "a disabled code is not reported, other codes still are"),
]


def replay_battery(out, ob, fails, role):
    hit = None
    results = []
    for bid, sc, pred, descr in BATTERY:
        res = mflow.native_replay(sc)
        if "error" in res:
            results.append({"id": bid, "error": res["error"]})
            continue
        v = bool(pred(res))
        results.append({"id": bid, "violates": v})
        if v and hit is None:
            hit = (bid, sc, res, descr)
    if hit is None:
        ob.status = "inconclusive"
        ob.detail = ("structural deviation found by the solver (%s) but none of the %d native scenarios shows a "
                     "property violation" % ("; ".join(sorted(set(fails)))[:300], len(BATTERY)))
        ob.extra["battery"] = results
        return
    bid, sc, res, descr = hit
    rec = {"property": out.prop, "role": role, "solver_findings": sorted(set(fails)), "scenario": sc, "native": res,
           "violates": True, "why": descr}
    path = mflow.write_replay(out, role + "_" + bid, rec)
    kf = match_known(out.prop, role, bid, {})
    ob.counterexamples = [{"findings": sorted(set(fails)), "native_scenario": bid, "replay": path}]
    if kf:
        ob.status = "known"
        out.known("%s [%s/%s]" % (kf["what"], role, bid))
    else:
        ob.status = "violation"
        ob.detail = "%s — confirmed natively by scenario %s (%s)" % ("; ".join(sorted(set(fails)))[:300], bid, descr)
        out.violation(path, "(%s: %s)" % (role, descr))


def run(out):
    mc = mflow.MContext(out)
    out.functions = ["DiagnosticContext::is_checker_enable_by_code", "DiagnosticContext::add_diagnostic",
                     "DiagnosticContext::get_severity", "LuaDiagnostic::diagnose_file", "LuaDiagnosticConfig::new",
                     "LuaModuleIndex::set_meta", "LuaModuleIndex::is_meta_file", "analyze_doc_tag_meta"]
    out.bounds = {"paths": "all paths of the listed functions (loop-free)", "observations": "every callee result free (all valuations)"}
    out.outside = ["globals / globalsRegex (regex engine, interned strings)",
                   "whether every checker routes its reports through add_diagnostic",
                   "JSON/Lua configuration loading in front of Emmyrc (C31/C32)", "severity maps with more than 2 entries (loop bound)",
                   "that the decl analyzer reaches analyze_doc_tag_meta for every `---@meta` tag (tree walk); HashMap get/get_mut agree on the entry of a key"]
    out.assumptions = [
        "callee contracts: DiagnosticIndex::is_file_enabled/is_file_disabled, LuaModuleIndex::is_meta_file, HashSet::contains, "
        "is_code_default_enable are deterministic observers of their arguments (free Booleans keyed by callee and argument identity)",
        "MIR printed by rustc nightly (-Zunpretty=mir, overflow-checks on) is the semantics of the function",
        "unwinding (panic) edges are not followed",
    ]
    try:
        viol = precedence(out, mc)
        g = gating(out, mc)
        fg = file_gate(out, mc)
        cp = config_plumbing(out, mc)
        mf = meta_flag(out, mc)
    except (symex.Unsupported, RuntimeError, KeyError, ValueError) as e:
        out.fatal = "engine M could not encode the current source: %r" % (e,)
        mc.finish()
        return
    for ob, cid, bad in viol:
        replay_precedence(out, ob, cid, bad)
    for ob, fails in g:
        replay_battery(out, ob, fails, "gating")
    for ob, fails in fg:
        replay_battery(out, ob, fails, "file_gate")
    for ob, fails in cp:
        replay_battery(out, ob, fails, "config")
    for ob, fails in mf:
        replay_battery(out, ob, fails, "meta_flag")
    for ob in out.obligations:
        ob.solver_s = ob.solver_s or 0.0
    out.extra_cov["translator_validation"] = "see DESIGN.md §1.2(6); concrete-mode runs recorded by tools/validate_m.py"
    mc.finish()
