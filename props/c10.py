"""C10 — Removed files leave no trace (claimed for the frame conditions: every index is told, for that file)."""
import indexframes as ix
import mflow
import symex
import c09

# after the removal the dependent file is re-submitted unchanged, so that what is compared is what the
# INDEX still knows about the removed file (facts recorded while analysing b.lua earlier are C08/C09's business)
SCENARIOS = [
    {"id": "remove_defining_file", "steps": [{"op": "set", "name": "a.lua", "text": c09.A1}, {"op": "set", "name": "b.lua", "text": c09.B}, {"op": "remove", "name": "a.lua"},
                                             {"op": "set", "name": "b.lua", "text": c09.B}]},
    {"id": "remove_and_readd", "steps": [{"op": "set", "name": "a.lua", "text": c09.A1}, {"op": "set", "name": "b.lua", "text": c09.B}, {"op": "remove", "name": "a.lua"},
                                         {"op": "set", "name": "a.lua", "text": c09.A2}, {"op": "set", "name": "b.lua", "text": c09.B}]},
    {"id": "split_class_supers", "steps": [{"op": "set", "name": "base.lua", "text": "---@class Base1\n---@field one integer\n\n---@class Base2\n---@field two integer\n"},
                                            {"op": "set", "name": "a.lua", "text": "---@class Foo: Base1\n---@field x integer\n"},
                                            {"op": "set", "name": "b.lua", "text": "---@class Foo: Base2\n---@field y integer\n"},
                                            {"op": "set", "name": "use.lua", "text": "---@type Foo\nlocal v\nprint(v.one, v.two, v.x, v.y)\n"},
                                            {"op": "remove", "name": "a.lua"},
                                            {"op": "set", "name": "use.lua", "text": "---@type Foo\nlocal v\nprint(v.one, v.two, v.x, v.y)\n"}]},
    {"id": "shared_member_two_files", "steps": [{"op": "set", "name": "a.lua", "text": "---@class (partial) Foo\n---@field x integer\n---@field only_a string\n"},
                                                {"op": "set", "name": "b.lua", "text": "---@class (partial) Foo\n---@field x integer\n"},
                                                {"op": "set", "name": "use.lua", "text": "---@type Foo\nlocal v\n---@type integer\nlocal n = v.x\nprint(n, v.only_a)\n"},
                                                {"op": "remove", "name": "a.lua"},
                                                {"op": "set", "name": "use.lua", "text": "---@type Foo\nlocal v\n---@type integer\nlocal n = v.x\nprint(n, v.only_a)\n"}]},
    {"id": "shared_method_two_files", "steps": [{"op": "set", "name": "t.lua", "text": "---@class T\nT = {}\n"},
                                                {"op": "set", "name": "a.lua", "text": "function T:m() return 1 end\n"},
                                                {"op": "set", "name": "b.lua", "text": "function T:m() return 1 end\n"},
                                                {"op": "set", "name": "use.lua", "text": "local r = T:m()\nprint(r)\n"},
                                                {"op": "remove", "name": "a.lua"},
                                                {"op": "set", "name": "use.lua", "text": "local r = T:m()\nprint(r)\n"}]},
    {"id": "loose_file_closed", "steps": [{"op": "set", "name": "keep.lua", "text": "---@class Keep\n---@field a integer\nKeepGlobal = {}\n"},
                                           {"op": "set", "path": "/c10-not-a-workspace-root/scratch/loose.lua", "text": "---@class LooseClass\n---@field x integer\nLooseGlobal = 1\nfunction loose_fn() return 1 end\n"},
                                           {"op": "set", "name": "use.lua", "text": "---@type LooseClass\nlocal v = nil\nlocal n = LooseGlobal\nlocal r = loose_fn()\nprint(v, n, r, KeepGlobal)\n"},
                                           {"op": "remove", "path": "/c10-not-a-workspace-root/scratch/loose.lua"},
                                           {"op": "set", "name": "use.lua", "text": "---@type LooseClass\nlocal v = nil\nlocal n = LooseGlobal\nlocal r = loose_fn()\nprint(v, n, r, KeepGlobal)\n"}]},
    {"id": "required_module_removed", "steps": [{"op": "set", "name": "lib.lua", "text": "---@class LibPoint\n---@field x integer\nlocal M = {}\nM.answer = 42\n---@return LibPoint\nfunction M.new() return { x = 1 } end\nreturn M\n"},
                                                {"op": "set", "name": "use.lua", "text": "local lib = require(\"lib\")\nlocal p = lib.new()\nprint(p.x, lib.answer)\n"},
                                                {"op": "remove", "name": "lib.lua"},
                                                {"op": "set", "name": "use.lua", "text": "local lib = require(\"lib\")\nlocal p = lib.new()\nprint(p.x, lib.answer)\n"}]},
    {"id": "remove_two_files", "steps": [{"op": "set", "name": "a.lua", "text": c09.A1}, {"op": "set", "name": "c.lua", "text": "---@class Bar\n---@operator add(Bar): Bar\nBarG = {}\n"},
                                          {"op": "set", "name": "b.lua", "text": c09.B}, {"op": "remove", "name": "a.lua"}, {"op": "remove", "name": "c.lua"},
                                          {"op": "set", "name": "b.lua", "text": c09.B}]},
    {"id": "remove_using_file", "steps": [{"op": "set", "name": "a.lua", "text": c09.A1}, {"op": "set", "name": "b.lua", "text": c09.B}, {"op": "remove", "name": "b.lua"}]},
]


def run(out):
    out.functions = ["<DbIndex as LuaIndex>::remove", "EmmyLuaAnalysis::remove_file_by_uri", "LuaCompilation::remove_index", "DbIndex::remove_index",
                     "<T as LuaIndex>::{remove,clear} and the self-methods remove reaches, for the 14 index types", "EmmyLuaAnalysis::update_file_by_uri", "EmmyLuaAnalysis::update_remote_file_by_uri"]
    out.bounds = {"paths": "all paths of the listed functions"}
    out.outside = ["which entries of a table each index's remove(file) deletes (only: every file-fed table is reachable for mutation from remove)", "memory release", "LSP-level results (workspace symbols, completion)"]
    out.assumptions = ["a call that receives `&mut self.field` and the file id removes that file's facts from the field (each index's own remove is outside)",
                       "the set of index types is read from `impl LuaIndex for T` in db_index/"]
    mc = mflow.MContext(out)
    pending = []
    try:
        ix.delegation(out, mc, "remove", pending)
        ix.analysis_glue(out, mc, "remove", pending)
        dbri(out, mc, pending)
        ix.remove_frames(out, mc, pending)
        ix.update_glue(out, mc, pending)
        ix.remove_prunes(out, mc, pending)
    except (symex.Unsupported, RuntimeError, KeyError, ValueError, IndexError, AttributeError, TypeError) as e:
        import traceback
        out.fatal = "engine M could not encode the current source: %r\n%s" % (e, traceback.format_exc()[-1500:])
    ix.replay(out, pending, SCENARIOS)
    mc.finish()


def dbri(out, mc, pending):
    """DbIndex::remove_index(ids): every id of the list goes through <DbIndex as LuaIndex>::remove"""
    import re
    import vecmodel
    from core import Obligation
    fns = mc.fns("emmylua_code_analysis", r"db_index::<impl[^>]*>::remove_index\(")
    fn = [f for f in fns if f.name.endswith("::remove_index")]
    ob = out.add(Obligation("delegate/remove_index_visits_every_id", "M",
                            "DbIndex::remove_index(ids) calls remove(id) for every id of the list (<= 2 ids, loop unrolled), none skipped",
                            {"function": "DbIndex::remove_index", "ids": "<= 2"}, [f.name for f in fn]))
    if len(fn) != 1:
        ob.status = "inconclusive"
        ob.detail = "%d candidates" % len(fn)
        return
    ex = symex.Executor(fns, max_visits=symex.visits(3))
    fails = []
    n = 0
    for p in ex.run(fn[0]):
        if p.kind == "cut":
            continue
        if p.kind != "return":
            fails.append("path kind %s" % p.kind)
            continue
        nexts = [e for e in p.trace if re.search(r"::next$", e.get("short", "")) and "FileId" in e["callee"]]
        somes = [e for e in nexts if mc.implied_eq(p, ex.discriminant(p.state, e["result"]).term, 1)]
        rems = [e for e in p.trace if re.search(r"LuaIndex>::remove$|DbIndex::remove$", e["callee"])]
        n += 1
        if len(rems) != len(somes):
            fails.append("%d ids yielded but %d removed" % (len(somes), len(rems)))
            continue
        for e, r in zip(somes, rems):
            idk = symex.kfmt(e["result"].k) if isinstance(e["result"], symex.Opaque) else "?"
            if idk not in r["akeys"][1]:
                fails.append("remove is called with something else than the yielded id")
    ob.witness = n > 0
    if fails:
        ob.status = "pending"
        ob.detail = "; ".join(sorted(set(fails)))
        pending.append((ob, fails))
    else:
        ob.status = "pass"
