"""C09 — Reindexing equals analysing the current files from scratch (claimed for the frame conditions: no index is skipped)."""
import indexframes as ix
import mflow
import symex

A1 = "---@class Foo\n---@field x integer\nFoo = {}\nfunction Foo.bar() end\nGLOB = 1\n"
A2 = "local _nothing = 1\n"
B = "local f = Foo\nprint(GLOB)\nFoo.bar()\n---@type Foo\nlocal v\nprint(v.x)\n"
SCENARIOS = [
    {"id": "edit_then_reindex", "steps": [{"op": "set", "name": "a.lua", "text": A1}, {"op": "set", "name": "b.lua", "text": B},
                                          {"op": "set", "name": "a.lua", "text": A2}, {"op": "reindex"}]},
    {"id": "remove_then_reindex", "steps": [{"op": "set", "name": "a.lua", "text": A1}, {"op": "set", "name": "b.lua", "text": B},
                                            {"op": "remove", "name": "a.lua"}, {"op": "reindex"}]},
    {"id": "reindex_twice", "steps": [{"op": "set", "name": "a.lua", "text": A1}, {"op": "set", "name": "b.lua", "text": B}, {"op": "reindex"}, {"op": "reindex"}]},
]


def run(out):
    out.functions = ["<DbIndex as LuaIndex>::clear", "<T as LuaIndex>::{clear,remove} for the 14 index types", "EmmyLuaAnalysis::reindex", "LuaCompilation::clear_index"]
    out.bounds = {"paths": "all paths of the listed functions (loops unrolled 3 visits in the per-index bodies)"}
    out.outside = ["what each index's clear()/remove() does INSIDE a touched field (hash maps of interned data)", "observable equality with a fresh analysis beyond the 3 native histories used as replay",
                   "the analyzers that repopulate the index (update_index)"]
    out.assumptions = ["a call that receives `&mut self.field` may mutate that field (touch = mutate, conservatively in favour of the code)",
                       "the set of index types is read from `impl LuaIndex for T` in db_index/; DbIndex's fields from its struct definition"]
    mc = mflow.MContext(out)
    pending = []
    try:
        ix.delegation(out, mc, "clear", pending)
        ix.per_index_frames(out, mc, pending)
        ix.analysis_glue(out, mc, "reindex", pending)
    except (symex.Unsupported, RuntimeError, KeyError, ValueError, IndexError, AttributeError, TypeError) as e:
        import traceback
        out.fatal = "engine M could not encode the current source: %r\n%s" % (e, traceback.format_exc()[-1500:])
    ix.replay(out, pending, SCENARIOS)
    mc.finish()
