"""C09 — Reindexing equals analysing the current files from scratch (claimed for the frame conditions: no index is skipped)."""
import indexframes as ix
import mflow
import symex

A1 = "---@class Foo\n---@field x integer\nFoo = {}\nfunction Foo.bar() end\nGLOB = 1\n"
A2 = "local _nothing = 1\n"
B = "local f = Foo\nprint(GLOB)\nFoo.bar()\n---@type Foo\nlocal v\nprint(v.x)\n"
SCENARIOS = [
    {"id": "edit_then_reindex", "steps": [{"op": "set", "name": "a.lua", "text": A1}, {"op": "set", "name": "b.lua", "text": B},
                                          {"op": "set", "name": "a.lua", "text": A2}, {"op": "reindex"}]},
    {"id": "remove_then_reindex", "steps": [{"op": "set", "name": "a.lua", "text": A1}, {"op": "set", "name": "b.lua", "text": B},
                                            {"op": "remove", "name": "a.lua"}, {"op": "reindex"}]},
    {"id": "stale_analysis_error", "fresh": "batch",
     "steps": [{"op": "set", "name": "a.lua", "text": "---@type Widget\nlocal w\n\n---@param x Widget\nlocal function use(x) end\n\nuse(w)\n"},
               {"op": "set", "name": "b.lua", "text": "---@class Widget\n---@field id integer\n"},
               {"op": "set", "name": "scratch.lua", "text": "---@class Scratch\nScratchGlobal = 1\n"}, {"op": "remove", "name": "scratch.lua"}, {"op": "reindex"}]},
    {"id": "split_class_generic_header", "fresh": "batch",
     "steps": [{"op": "set", "name": "box_a.lua", "text": "---@class (partial) Box<T>\n---@field value T\n"},
               {"op": "set", "name": "box_b.lua", "text": "---@class (partial) Box\n---@field label string\n"},
               {"op": "set", "name": "user.lua", "text": "---@type Box\nlocal b\n\n---@param x Box\n---@return string\nlocal function describe(x)\n    return x.label\nend\n\nBoxLabel = describe(b)\n"},
               {"op": "set", "name": "box_a.lua", "text": "---@class (partial) Box\n---@field value integer\n"}, {"op": "reindex"}]},
    {"id": "remote_document", "fresh": "batch",
     "steps": [{"op": "set_remote", "uri": "emmylua-remote://host/pkg/remote_thing.lua", "text": "---@class RemoteThing\n---@field n integer\nRemoteGlobal = 1\n"},
               {"op": "set", "name": "main.lua", "text": "---@type RemoteThing\nlocal t\nprint(t.n, RemoteGlobal)\n"},
               {"op": "set", "name": "old.lua", "text": "---@class OldThing\nOldGlobal = 1\n"}, {"op": "remove", "name": "old.lua"}, {"op": "reindex"}]},
    {"id": "member_definition_order", "fresh": "batch",
     "steps": [{"op": "set", "name": "types.lua", "text": "---@class Shape\nShape = {}\n"},
               {"op": "set", "name": "first.lua", "text": "-- nothing about Shape.area yet\nlocal unrelated = 1\nreturn unrelated\n"},
               {"op": "set", "name": "second.lua", "text": "Shape.area = \"text\"\n"},
               {"op": "set", "name": "use.lua", "text": "local v = Shape.area\nreturn v\n"},
               {"op": "set", "name": "first.lua", "text": "Shape.area = 1\n"}, {"op": "reindex"}]},
    {"id": "field_declaration_order", "fresh": "batch",
     "steps": [{"op": "set", "name": "p_first.lua", "text": "---@class (partial) Box\n---@field other boolean\n"},
               {"op": "set", "name": "p_second.lua", "text": "---@class (partial) Box\n---@field size string\n"},
               {"op": "set", "name": "p_use.lua", "text": "---@type Box\nlocal b\n---@type integer\nlocal size = b.size\nreturn size\n"},
               {"op": "set", "name": "p_first.lua", "text": "---@class (partial) Box\n---@field size integer\n"}, {"op": "reindex"}]},
    {"id": "reindex_twice", "steps": [{"op": "set", "name": "a.lua", "text": A1}, {"op": "set", "name": "b.lua", "text": B}, {"op": "reindex"}, {"op": "reindex"}]},
]


def run(out):
    out.functions = ["<DbIndex as LuaIndex>::clear", "<T as LuaIndex>::{clear,remove} for the 14 index types", "EmmyLuaAnalysis::reindex", "LuaCompilation::clear_index"]
    out.bounds = {"paths": "all paths of the listed functions (loops unrolled 3 visits in the per-index bodies)"}
    out.outside = ["what each index's clear()/remove() does INSIDE a touched field (hash maps of interned data)", "observable equality with a fresh analysis beyond the 3 native histories used as replay",
                   "the analyzers that repopulate the index (update_index)"]
    out.assumptions = ["a call that receives `&mut self.field` may mutate that field (touch = mutate, conservatively in favour of the code)",
                       "the set of index types is read from `impl LuaIndex for T` in db_index/; DbIndex's fields from its struct definition"]
    mc = mflow.MContext(out)
    pending = []
    try:
        ix.delegation(out, mc, "clear", pending)
        ix.per_index_frames(out, mc, pending)
        ix.analysis_glue(out, mc, "reindex", pending)
    except (symex.Unsupported, RuntimeError, KeyError, ValueError, IndexError, AttributeError, TypeError) as e:
        import traceback
        out.fatal = "engine M could not encode the current source: %r\n%s" % (e, traceback.format_exc()[-1500:])
    ix.replay(out, pending, SCENARIOS)
    mc.finish()
