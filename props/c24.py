"""C24 — Every client request gets exactly one response (engine M on the async state machines; native replay over stdio)."""
import json
import os
import re
import subprocess
import time

import z3

import mflow
import symex
from core import Obligation, match_known
from symex import Agg, BV, Opaque, Ref

WANT = (r"^fn on_request_handler|context::<impl[^>]*>::(task|send|cancel)\(|message_processor::<impl[^>]*>::handle_message")


ENUMS = {"Message": ["Request", "Response", "Notification"]}


def coroutine_args(ex, st, upvars=None):
    over = {("discr",): BV(z3.BitVecVal(0, 64), True)}
    state = Opaque("coroutine", ("state",), over)
    cid = st.new_cell(state)
    pin = Agg("Pin", None, [Ref(("heap", cid), (), True)])
    cx = Ref(("heap", st.new_cell(Opaque("Context", ("cx",)))), (), True)
    return [pin, cx]


def is_ready(p):
    return p.kind == "return" and isinstance(p.ret, Agg) and p.ret.variant == "Ready"


def responses(p):
    """response events of a path: direct sends and task() promises"""
    ev = []
    for e in p.trace:
        sh = e.get("short", "")
        if re.search(r"ServerContext::send$", sh):
            ev.append(("send", e))
        elif re.search(r"ServerContext::task$", sh):
            ev.append(("task", e))
        elif re.search(r"channel::Sender::send$", sh) or re.search(r"Sender::<Message>::send$", e["callee"]):
            ev.append(("chan", e))
    return ev


def dispatcher(out, mc, fns, pending):
    fn = [f for f in fns if f.name == "on_request_handler::{closure#0}"]
    ob = out.add(Obligation("dispatcher/exactly_one_response_per_request", "M",
                            "every completed path of on_request_handler (any method string, params that deserialize or not) performs exactly one response action: "
                            "ServerContext::send(response for this request's id) or ServerContext::task(this request's id, handler) — never zero, never two",
                            {"function": "on_request_handler::{closure#0} (async body, awaits complete)", "methods": "all arms + the default arm; extract Ok and Err"}, []))
    ob2 = out.add(Obligation("dispatcher/handler_closure_always_yields_a_response", "M",
                             "each per-method task closure resolves to Some(Response::new_ok(id of the request, handler result)) on every completed path",
                             {"function": "on_request_handler::{closure#0}::{closure#N}::{closure#0} for every N"}, []))
    if len(fn) != 1:
        ob.status = ob2.status = "inconclusive"
        ob.detail = ob2.detail = "dispatcher coroutine not found"
        return
    fn = fn[0]
    ob.functions = [fn.name]
    ex = symex.Executor(fns, enums=ENUMS, max_visits=symex.visits(2), max_paths=20000)
    st = symex.State()
    t0 = time.time()
    paths = ex.run(fn, coroutine_args(ex, st), st)
    out.extra_cov.setdefault("symbolic_execution", []).append(
        {"function": fn.name, "blocks": len(fn.blocks), "paths": len(paths), "seconds": round(time.time() - t0, 2), **ex.stats})
    fails = []
    n_ready = 0
    kinds = {"send": 0, "task": 0}
    arms = set()
    for p in paths:
        if p.kind in ("cut",):
            fails.append("loop bound hit in the dispatcher")
            continue
        if p.kind == "diverge":
            continue
        if not is_ready(p):
            if p.kind == "return":
                continue
            fails.append("path kind %s %s" % (p.kind, p.info[:60]))
            continue
        n_ready += 1
        rs = [r for r in responses(p) if r[0] in ("send", "task")]
        ext = [e for e in p.trace if re.search(r"Request::extract$", e.get("short", ""))]
        arm = ext[-1]["akeys"][1] if ext else "default"
        arms.add(arm)
        if len(rs) != 1:
            outcome = "?"
            if ext:
                d = ex.discriminant(p.state, ext[-1]["result"])
                outcome = "Ok" if mc.implied_eq(p, d.term, 0) else ("Err" if mc.implied_eq(p, d.term, 1) else "?")
            fails.append("%d response actions on the path of arm %s (params %s)" % (len(rs), arm[:60], outcome))
            continue
        kind, e = rs[0]
        kinds[kind] += 1
        # the response is for THIS request
        if kind == "send":
            resp = e["args"][1]
            k = ex.deep_key(p.state, resp)
            if "(state)" not in k and "Request" not in k:
                fails.append("a response is sent whose id does not come from the request")
        else:
            idk = e["akeys"][1]
            if "Request::extract" not in idk and "(state)" not in idk:
                fails.append("task() is registered under an id that does not come from the request")
    ob.witness = n_ready > 0
    ob.extra = {"completed_paths": n_ready, "arms_seen": len(arms), "direct_sends": kinds["send"], "task_promises": kinds["task"]}
    if n_ready == 0:
        fails.append("no completed path")
    if fails:
        ob.status = "pending"
        ob.detail = "; ".join(sorted(set(fails)))[:700]
        pending.append((ob, fails))
    else:
        ob.status = "pass"
    # per-method closures
    blocks = [f for f in fns if re.match(r"^on_request_handler::\{closure#0\}::\{closure#\d+\}::\{closure#0\}$", f.name)]
    fails2 = []
    good = 0
    for b in blocks:
        exb = symex.Executor(fns, enums=ENUMS, max_visits=symex.visits(2))
        stb = symex.State()
        ps = exb.run(b, coroutine_args(exb, stb), stb)
        ok_here = 0
        for p in ps:
            if not is_ready(p):
                if p.kind not in ("return", "diverge"):
                    fails2.append("%s: path kind %s" % (b.name[-40:], p.kind))
                continue
            v = p.ret.fields[0]
            if not (isinstance(v, Agg) and v.variant == "Some"):
                fails2.append("%s can resolve to None/unknown instead of Some(response)" % b.name[-45:])
                continue
            rk = exb.deep_key(p.state, v.fields[0])
            if "Response::new_ok" not in rk:
                fails2.append("%s does not build its response with Response::new_ok" % b.name[-45:])
            ok_here += 1
        good += 1 if ok_here else 0
        ob2.functions.append(b.name)
    ob2.witness = good > 0
    ob2.extra = {"closures": len(blocks), "closures_with_completed_path": good}
    if not blocks:
        fails2.append("no per-method task closures found")
    if fails2:
        ob2.status = "pending"
        ob2.detail = "; ".join(sorted(set(fails2)))[:700]
        pending.append((ob2, fails2))
    else:
        ob2.status = "pass"


def task_wrapper(out, mc, fns, pending):
    outer = [f for f in fns if re.search(r"context::<impl[^>]*>::task::\{closure#0\}$", f.name)]
    inner = [f for f in fns if re.search(r"context::<impl[^>]*>::task::\{closure#0\}::\{closure#0\}$", f.name)]
    ob = out.add(Obligation("task/registers_token_and_spawns_once", "M",
                            "ServerContext::task inserts the request's cancellation token under its id and spawns exactly one future on every completed path",
                            {"function": "ServerContext::task::{closure#0}"}, [f.name for f in outer]))
    ob2 = out.add(Obligation("task/spawned_future_sends_exactly_one_response", "M",
                             "the spawned future sends exactly one Message::Response on every completed path — RequestCanceled when the token is cancelled, "
                             "InternalError when the handler yields None, else the handler's response — and then removes the cancellation entry",
                             {"function": "ServerContext::task::{closure#0}::{closure#0}", "free": "cancelled?, handler result Some/None"}, [f.name for f in inner]))
    if len(outer) != 1 or len(inner) != 1:
        ob.status = ob2.status = "inconclusive"
        ob.detail = ob2.detail = "task wrapper not found in MIR"
        return
    ex = symex.Executor(fns, enums=ENUMS, max_visits=symex.visits(2))
    st = symex.State()
    paths = ex.run(outer[0], coroutine_args(ex, st), st)
    fails = []
    n = 0
    for p in paths:
        if not is_ready(p):
            if p.kind not in ("return", "diverge"):
                fails.append("path kind %s" % p.kind)
            continue
        n += 1
        sp = [e for e in p.trace if re.search(r"tokio::spawn$", e.get("short", ""))]
        ins = [e for e in p.trace if re.search(r"HashMap::insert$", e.get("short", ""))]
        if len(sp) != 1:
            fails.append("%d futures spawned" % len(sp))
        if len(ins) != 1:
            fails.append("%d cancellation tokens registered" % len(ins))
        elif sp and p.trace.index(ins[0]) > p.trace.index(sp[0]):
            fails.append("the token is registered after the future is spawned")
    ob.witness = n > 0
    if n == 0:
        fails.append("no completed path")
    if fails:
        ob.status = "pending"
        ob.detail = "; ".join(sorted(set(fails)))
        pending.append((ob, fails))
    else:
        ob.status = "pass"
    # the spawned future
    ex = symex.Executor(fns, enums=ENUMS, max_visits=symex.visits(2))
    st = symex.State()
    paths = ex.run(inner[0], coroutine_args(ex, st), st)
    fails = []
    n = 0
    seen = set()
    for p in paths:
        if not is_ready(p):
            if p.kind not in ("return", "diverge"):
                fails.append("path kind %s" % p.kind)
            continue
        n += 1
        sends = [e for e in p.trace if re.search(r"Sender::<Message>::send$|channel::Sender::send$", e["callee"]) or e.get("short", "").endswith("channel::Sender::send")]
        canc = mflow.find_event(p, r"CancellationToken::is_cancelled$")
        label = "?"
        if canc is not None:
            r, _ = mc.check(list(p.pc) + [z3.Not(canc["result"].term)], "c")
            label = "cancelled" if r == "unsat" else "not-cancelled"
        seen.add(label)
        if len(sends) != 1:
            fails.append("%d responses sent on a completed path (%s)" % (len(sends), label))
            continue
        msg = sends[0]["args"][1]
        if not (isinstance(msg, Agg) and msg.variant == "Response"):
            fails.append("what is sent is not a Message::Response")
        rem = [e for e in p.trace if re.search(r"HashMap::remove$", e.get("short", ""))]
        if len(rem) != 1:
            fails.append("cancellation entry removed %d times" % len(rem))
        elif p.trace.index(rem[0]) < p.trace.index(sends[0]):
            fails.append("cancellation entry removed before the response is sent")
        if label == "cancelled":
            k = ex.deep_key(p.state, msg)
            if "Response::new_err" not in k:
                fails.append("a cancelled request is not answered with an error response")
    ob2.witness = n > 0
    ob2.extra = {"completed_paths": n, "cases": sorted(seen)}
    if n == 0:
        fails.append("no completed path")
    if fails:
        ob2.status = "pending"
        ob2.detail = "; ".join(sorted(set(fails)))
        pending.append((ob2, fails))
    else:
        ob2.status = "pass"


def routing(out, mc, fns, pending):
    fn = [f for f in fns if re.search(r"message_processor::<impl[^>]*>::handle_message::\{closure#0\}$", f.name)]
    ob = out.add(Obligation("routing/requests_reach_the_dispatcher", "M",
                            "handle_message hands every Message::Request that is not the shutdown request to on_request_handler exactly once",
                            {"function": "ServerMessageProcessor::handle_message::{closure#0}"}, [f.name for f in fn]))
    if len(fn) != 1:
        ob.status = "inconclusive"
        ob.detail = "handle_message not found"
        return
    ex = symex.Executor(fns, enums=ENUMS, max_visits=symex.visits(2))
    st = symex.State()
    paths = ex.run(fn[0], coroutine_args(ex, st), st)
    fails = []
    n_req = 0
    for p in paths:
        if not is_ready(p):
            if p.kind not in ("return", "diverge"):
                fails.append("path kind %s" % p.kind)
            continue
        sh = mflow.find_event(p, r"handle_shutdown$")
        if sh is None:
            continue    # not a request
        n_req += 1
        calls = [e for e in p.trace if re.search(r"(^|::)on_request_handler$", e.get("short", ""))]
        # did handle_shutdown say "shutdown"?  its awaited result is Result<bool,_>; the path either returned Ok(true) early or went on
        closed = mflow.find_event(p, r"ServerContext::close$")
        errored = isinstance(p.ret.fields[0], Agg) and p.ret.fields[0].variant == "Err" and not calls
        if closed is None and not errored and len(calls) != 1:
            fails.append("a non-shutdown request reaches the dispatcher %d times" % len(calls))
        if closed is not None and calls:
            fails.append("the shutdown request is also dispatched")
    ob.witness = n_req > 0
    if n_req == 0:
        fails.append("no request path")
    if fails:
        ob.status = "pending"
        ob.detail = "; ".join(sorted(set(fails)))
        pending.append((ob, fails))
    else:
        ob.status = "pass"


def handshake(out, mc, pending):
    """run_ls: the initialize request is answered whatever its params are (no unwrap on client data)"""
    fns = mc.fns("emmylua_ls", r"^fn run_ls")
    fn = [f for f in fns if f.name == "run_ls::{closure#0}"]
    ob = out.add(Obligation("handshake/initialize_always_answered", "M",
                            "run_ls: once initialize_start handed over (id, params), every completed path answers that id exactly once — initialize_finish(id, ..) or an error response — "
                            "and no unwrap/expect is applied to a value deserialized from the client's params",
                            {"function": "run_ls::{closure#0}", "free": "initialize_start outcome, from_value outcome, initialize_finish outcome"}, [f.name for f in fn]))
    if len(fn) != 1:
        ob.status = "inconclusive"
        ob.detail = "run_ls not found"
        return
    ex = symex.Executor(fns, enums=ENUMS, max_visits=symex.visits(3))

    def m_unwrap(ex_, st, cname, args, dest_ty, fn_):
        v = args[0]
        if isinstance(v, Opaque):
            k = ex_.deep_key(st, v)
            # judged: an unwrap applied directly to the result of DEserializing client data (serializing the
            # server's own capabilities cannot fail and is not judged)
            if "initialize_start" in k and re.match(r"^opq:\(call,serde_json::(from_value|from_str|from_slice)", k):
                d = ex_.discriminant(st, v)
                good = 1 if "Option" in cname else 0
                st.obligations.append(("%s on a value deserialized from the client's initialize params" % cname.split("::")[-1], d.term == z3.BitVecVal(good, 64), fn_.name, len(st.pc)))
        return NotImplemented
    ex.models.append((r"(Option|Result)::<.*>::(unwrap|expect)$", m_unwrap))
    st = symex.State()
    paths = ex.run(fn[0], coroutine_args(ex, st), st)
    fails = []
    n = 0
    for p in paths:
        if p.kind in ("cut", "diverge"):
            continue
        start = mflow.find_event(p, r"Connection::initialize_start$")
        if start is None:
            continue
        for (what, cond, where, npc) in p.state.obligations:
            r, _ = mc.check(list(p.pc[:npc]) + [z3.Not(cond)], "unwrap")
            if r != "unsat":
                fails.append("%s can panic" % what)
        if p.kind != "return":
            fails.append("path kind %s" % p.kind)
            continue
        # did initialize_start succeed on this path?  (its Try::branch forks Ok/Err)
        d = ex.discriminant(p.state, start["result"])
        if not mc.implied_eq(p, d.term, 0):
            continue
        n += 1
        fin = [e for e in p.trace if re.search(r"Connection::initialize_finish$", e.get("short", ""))]
        # an answer to the initialize request: a Response (ok or error) built from the id initialize_start handed over
        errs = [e for e in p.trace if re.search(r"Sender.*::send$|ServerContext::send$", e["callee"])
                and re.search(r"Response::new_(err|ok),\(opq:\(+call,(lsp_server::)?Connection::initialize_start", " ".join(e["akeys"]))]
        if len(fin) + len(errs) != 1:
            fails.append("%d answers to the initialize request on a completed path" % (len(fin) + len(errs)))
        for e in fin:
            if "initialize_start" not in e["akeys"][1]:
                fails.append("initialize_finish answers an id that does not come from initialize_start")
    ob.witness = n > 0
    ob.extra = {"paths_after_successful_initialize_start": n}
    if n == 0:
        fails.append("no completed path after initialize_start")
    if fails:
        ob.status = "pending"
        ob.detail = "; ".join(sorted(set(fails)))[:600]
        pending.append((ob, fails))
    else:
        ob.status = "pass"


def main_loop(out, mc, pending):
    """LspServer::run / wait_for_initialization: messages that arrive while the workspace is loading are handled or
    queued, and the queue is always processed once loading is over"""
    fns = mc.fns("emmylua_ls", r"lsp_server.rs[^>]*>::(run|wait_for_initialization)|message_processor.rs[^>]*>::(process_pending_messages|can_process_during_init)")
    ob1 = out.add(Obligation("main_loop/queued_messages_are_processed", "M",
                             "LspServer::run: on every path on which wait_for_initialization completed without error, process_pending_messages runs before the server closes, "
                             "returns or reads further messages (requests queued during loading are not abandoned)",
                             {"function": "LspServer::run (async body)", "loop": "2 messages"}, []))
    ob2 = out.add(Obligation("main_loop/message_during_loading_handled_or_queued", "M",
                             "wait_for_initialization: every message received while loading is handed to handle_message or pushed to pending_messages — exactly one of the two, that message — "
                             "before the next receive or return",
                             {"function": "LspServer::wait_for_initialization (async body)", "loop": "2 messages"}, []))
    run = [f for f in fns if re.search(r"lsp_server.rs[^>]*>::run::\{closure#0\}$", f.name)]
    wfi = [f for f in fns if re.search(r"lsp_server.rs[^>]*>::wait_for_initialization::\{closure#0\}$", f.name)]
    # ---- run
    fails = []
    n = 0
    if len(run) != 1:
        fails.append("LspServer::run not found")
    else:
        ob1.functions.append(run[0].name)
        ex = symex.Executor(fns, enums=ENUMS, max_visits=symex.visits(2))
        st = symex.State()
        for p in ex.run(run[0], coroutine_args(ex, st), st):
            if p.kind == "cut":
                continue
            if p.kind != "return":
                fails.append("path kind %s" % p.kind)
                continue
            names = [e.get("short", e["callee"]) for e in p.trace]
            w = [i for i, x in enumerate(names) if x.endswith("LspServer::wait_for_initialization")]
            if len(w) != 1:
                fails.append("wait_for_initialization is called %d times" % len(w))
                continue
            # did it complete without error?  the `?` forks on the awaited result: an Err path returns right away with Err
            ret_err = isinstance(p.ret, symex.Agg) and p.ret.fields and isinstance(p.ret.fields[0], symex.Agg) and p.ret.fields[0].variant == "Err"
            rest = names[w[0] + 1:]
            if ret_err and not [x for x in rest if not x.startswith("<") and "from" not in x.lower() and "drop" not in x.lower()]:
                continue
            n += 1
            pp = [i for i, x in enumerate(rest) if x.endswith("process_pending_messages")]
            other = [i for i, x in enumerate(rest) if re.search(r"ServerContext::close$|AsyncConnection::recv$|process_message$", x)]
            if not pp:
                fails.append("a path leaves wait_for_initialization and never processes the queued messages")
            elif other and other[0] < pp[0]:
                fails.append("the server closes or reads on before the queued messages are processed")
    ob1.witness = n > 0
    if n == 0:
        fails.append("no path past wait_for_initialization")
    if fails:
        ob1.status = "pending"
        ob1.detail = "; ".join(sorted(set(fails)))[:500]
        pending.append((ob1, fails))
    else:
        ob1.status = "pass"
    # ---- wait_for_initialization
    fails = []
    n = 0
    if len(wfi) != 1:
        fails.append("wait_for_initialization not found")
    else:
        ob2.functions.append(wfi[0].name)
        ex = symex.Executor(fns, enums=ENUMS, max_visits=symex.visits(2))
        st = symex.State()
        for p in ex.run(wfi[0], coroutine_args(ex, st), st):
            if p.kind not in ("return", "cut"):
                fails.append("path kind %s" % p.kind)
                continue
            evs = p.trace
            for i, e in enumerate(evs):
                if e["callee"] != "<await>" or "recv" not in str(e["args"][0]):
                    continue
                res = symex.Opaque("std::result::Result<std::option::Option<lsp_server::Message>, tokio::time::error::Elapsed>", ("await", e["args"][0]))
                d_res = ex.discriminant(p.state, res)
                opt = symex.LazyPayload(ex, p.state, res, "Ok")[0]
                d_opt = ex.discriminant(p.state, opt)
                if not (mc.implied_eq(p, d_res.term, 0) and mc.implied_eq(p, d_opt.term, 1)):
                    continue            # timeout or closed connection on this path
                nxt = next((j for j in range(i + 1, len(evs)) if evs[j]["callee"] == "<await>" and "recv" in str(evs[j]["args"][0])), len(evs))
                seg = evs[i + 1:nxt]
                if p.kind == "cut" and nxt == len(evs) and not [g for g in seg if re.search(r"handle_message$|Vec::push$", g.get("short", g["callee"]))]:
                    continue            # the bound cut the path right after the receive
                n += 1
                key = symex.kfmt(("await", e["args"][0]))
                hm = [g for g in seg if g.get("short", g["callee"]).endswith("handle_message") and key in " ".join(g["akeys"])]
                pu = [g for g in seg if re.search(r"Vec::push$", g.get("short", g["callee"])) and key in " ".join(g["akeys"])]
                if len(hm) + len(pu) != 1:
                    fails.append("a message received while loading is handled %d times and queued %d times" % (len(hm), len(pu)))
    ob2.witness = n > 0
    if n == 0:
        fails.append("no received message was followed")
    if fails:
        ob2.status = "pending"
        ob2.detail = "; ".join(sorted(set(fails)))[:500]
        pending.append((ob2, fails))
    else:
        ob2.status = "pass"


def preinit_window(out, mc, pending):
    """run_ls: between the initialize response and the `initialized` notification a request is answered, not fatal"""
    fns = mc.fns("emmylua_ls", r"^fn run_ls")
    fn = [f for f in fns if f.name == "run_ls::{closure#0}"]
    ob = out.add(Obligation("handshake/request_before_initialized_is_answered", "M",
                            "run_ls: the wait for `initialized` is not left to lsp_server::Connection::initialize_finish (contract: any other message is a fatal protocol error, unanswered); "
                            "on every path on which a message received before the main loop can be a Request, a Response built from that request is sent before the next receive or return",
                            {"function": "run_ls::{closure#0}", "messages_before_initialized": "<= 2 (loop heads visited 3 times)"}, [f.name for f in fn]))
    if len(fn) != 1:
        ob.status = "inconclusive"
        ob.detail = "run_ls not found"
        return
    i_req = ENUMS["Message"].index("Request")
    ex = symex.Executor(fns, enums=ENUMS, max_visits=symex.visits(3))
    st = symex.State()
    paths = ex.run(fn[0], coroutine_args(ex, st), st)
    fails = []
    n = 0
    for p in paths:
        if p.kind in ("cut", "diverge"):
            continue
        evs = p.trace
        names = [e.get("short", e["callee"]) for e in evs]
        if any(re.search(r"Connection::initialize_finish(_while)?$", x) for x in names):
            fails.append("the wait for `initialized` is done by lsp_server's initialize_finish: a request that arrives first ends the server unanswered")
            n += 1
            continue
        for i, e in enumerate(evs):
            if not re.search(r"Receiver.*::recv$", e["callee"]) or not isinstance(e["result"], symex.Opaque):
                continue
            res = e["result"]
            d_res = ex.discriminant(p.state, res)
            msg = symex.LazyPayload(ex, p.state, res, "Ok")[0]
            d_msg = ex.discriminant(p.state, msg)
            r, _ = mc.check(list(p.pc) + [d_res.term == z3.BitVecVal(0, 64), d_msg.term == z3.BitVecVal(i_req, 64)], "request_possible")
            if r != "sat":
                continue
            n += 1
            nxt = next((j for j in range(i + 1, len(evs)) if re.search(r"Receiver.*::recv$|main_loop$", evs[j]["callee"])), len(evs))
            rk = symex.kfmt(res.k)
            sends = [g for g in evs[i + 1:nxt] if re.search(r"Sender.*::send$", g["callee"]) and re.search(r"Response::new_(err|ok)", " ".join(g["akeys"])) and "recv" in " ".join(g["akeys"])]
            if not sends:
                fails.append("a request received before `initialized` is not answered")
    ob.witness = n > 0
    ob.extra = {"receive_points_where_a_request_is_possible": n}
    if n == 0:
        fails.append("no receive point between the initialize response and the main loop was found")
    if fails:
        ob.status = "pending"
        ob.detail = "; ".join(sorted(set(fails)))[:500]
        pending.append((ob, fails))
    else:
        ob.status = "pass"


def shutdown_window(out, mc, pending):
    """AsyncConnection::handle_shutdown: between the shutdown response and `exit`, a request is still answered"""
    fns = mc.fns("emmylua_ls", r"handle_shutdown")
    fn = [f for f in fns if f.name.endswith("handle_shutdown::{closure#0}")]
    ob = out.add(Obligation("shutdown/request_after_shutdown_is_answered", "M",
                            "handle_shutdown: on every path on which the message awaited after the shutdown response can be a Request, a Response carrying that request's id is sent "
                            "before the function waits again or returns (z3: timeout outcome, Option and Message kind of the received value are free)",
                            {"function": "AsyncConnection::handle_shutdown (async body, awaits complete)", "messages_after_shutdown": "<= 2 (loop head visited 3 times)"}, [f.name for f in fn]))
    if len(fn) != 1:
        ob.status = "inconclusive"
        ob.detail = "handle_shutdown: %d candidates" % len(fn)
        return
    msg_variants = ENUMS.get("Message") or ["Request", "Response", "Notification"]
    i_req = msg_variants.index("Request")
    ex = symex.Executor(fns, enums=ENUMS, max_visits=symex.visits(3))
    st = symex.State()
    paths = ex.run(fn[0], coroutine_args(ex, st), st)
    fails = []
    n = 0
    for p in paths:
        if p.kind == "cut":
            continue
        if p.kind != "return":
            fails.append("path kind %s" % p.kind)
            continue
        evs = p.trace
        for i, e in enumerate(evs):
            if e["callee"] != "<await>":
                continue
            res = None
            # the value of the await is the destination of the poll: recover it from the key
            key = ("await", e["args"][0])
            ty = "std::result::Result<std::option::Option<lsp_server::Message>, tokio::time::error::Elapsed>"
            res = symex.Opaque(ty, key)
            d_res = ex.discriminant(p.state, res)
            opt = symex.LazyPayload(ex, p.state, res, "Ok")[0]
            d_opt = ex.discriminant(p.state, opt)
            msg = symex.LazyPayload(ex, p.state, opt, "Some")[0]
            d_msg = ex.discriminant(p.state, msg)
            q = [d_res.term == z3.BitVecVal(0, 64), d_opt.term == z3.BitVecVal(1, 64), d_msg.term == z3.BitVecVal(i_req, 64)]
            r, _ = mc.check(list(p.pc) + q, "request_possible")
            if r != "sat":
                continue
            n += 1
            nxt = next((j for j in range(i + 1, len(evs)) if evs[j]["callee"] == "<await>"), len(evs))
            sends = [g for g in evs[i + 1:nxt] if re.search(r"Sender.*::send$", g["callee"]) and re.search(r"Response::new_(err|ok)", " ".join(g["akeys"]))]
            mk = symex.kfmt(msg.k) if isinstance(msg, symex.Opaque) else "?"
            mine = [g for g in sends if "await" in " ".join(g["akeys"])]
            if not mine:
                fails.append("a request received after shutdown is not answered (the function %s)" % ("returns an error and the server ends" if nxt == len(evs) else "waits for the next message"))
    ob.witness = n > 0
    ob.extra = {"await_points_where_a_request_is_possible": n, "paths": len(paths)}
    if n == 0:
        fails.append("no await after the shutdown response")
    if fails:
        ob.status = "pending"
        ob.detail = "; ".join(sorted(set(fails)))[:500]
        pending.append((ob, fails))
    else:
        ob.status = "pass"


# ---------------------------------------------------------------------------------------------
# native replay: real emmylua_ls over stdio

def build_ls():
    env = dict(os.environ)
    env["CARGO_TARGET_DIR"] = os.path.join(os.environ.get("VERIF_ROOT", "/verif"), ".build", "native-repo")
    env["CARGO_NET_OFFLINE"] = "true"
    env.pop("RUSTFLAGS", None)
    os.makedirs(os.path.join(os.environ.get("VERIF_ROOT", "/verif"), ".build", "logs"), exist_ok=True)
    with open(os.path.join(os.environ.get("VERIF_ROOT", "/verif"), ".build", "logs", "emmylua_ls.build.log"), "w") as log:
        r = subprocess.run(["cargo", "build", "--offline", "-p", "emmylua_ls"], cwd="/repo", env=env, stdout=log, stderr=subprocess.STDOUT, timeout=3600)
    exe = os.path.join(os.environ.get("VERIF_ROOT", "/verif"), ".build", "native-repo", "debug", "emmylua_ls")
    return exe if r.returncode == 0 and os.path.exists(exe) else None


SESSION = [
    {"jsonrpc": "2.0", "id": 1, "method": "textDocument/hover", "params": 42},
    {"jsonrpc": "2.0", "id": 2, "method": "textDocument/foldingRange"},
    {"jsonrpc": "2.0", "id": 3, "method": "foo/unknown", "params": {}},
    {"jsonrpc": "2.0", "id": 4, "method": "$/unknownDollar", "params": {}},
    {"jsonrpc": "2.0", "id": 5, "method": "textDocument/hover", "params": {"textDocument": {"uri": "file:///nonexistent.lua"}, "position": {"line": 0, "character": 0}}},
    {"jsonrpc": "2.0", "id": 6, "method": "textDocument/documentSymbol", "params": {"textDocument": {"uri": "file:///nonexistent.lua"}}},
    {"jsonrpc": "2.0", "id": "s7", "method": "textDocument/completion", "params": {"textDocument": {"uri": "file:///nonexistent.lua"}, "position": {"line": 0, "character": 0}}},
    {"jsonrpc": "2.0", "id": 8, "method": "workspace/symbol", "params": {"query": "x"}},
    {"jsonrpc": "2.0", "method": "$/cancelRequest", "params": {"id": 8}},
    {"jsonrpc": "2.0", "id": 9, "method": "textDocument/definition", "params": None},
    {"jsonrpc": "2.0", "id": 10, "method": "textDocument/hover", "params": {"textDocument": {"uri": "file:///nonexistent.lua"}, "position": {"line": 0, "character": 0}}},
]
IDS = [1, 2, 3, 4, 5, 6, "s7", 8, 9, 10]


def replay(out, pending):
    if not pending:
        return
    exe = build_ls()
    import lspdrive
    res = None
    extra = {}
    if exe:
        res = lspdrive.run_session(exe, SESSION, IDS, timeout=15)
        # two scripted sessions that open the windows a cancellation bug needs
        extra["cancel_during_init"] = lspdrive.session_cancel_during_init(exe)
        extra["cancel_in_flight"] = lspdrive.session_cancel_in_flight(exe)
        extra["bad_initialize"] = {k: v for k, v in lspdrive.session_bad_initialize(exe).items() if k != "alive"}
        extra["after_shutdown"] = lspdrive.session_after_shutdown(exe)
        extra["before_initialized"] = lspdrive.session_before_initialized(exe)
        extra["shutdown_while_loading"] = lspdrive.session_shutdown_while_loading(exe)
    for ob, fails in pending:
        if not exe:
            ob.status = "inconclusive"
            ob.detail += " — and the real emmylua_ls did not build for the native replay"
            continue
        counts = {str(i): len(res["responses"].get(str(i), [])) for i in IDS}
        for name, r in extra.items():
            for i, c in r.items():
                if i != "setup_failed":
                    counts["%s:%s" % (name, i)] = c
        bad = {i: c for i, c in counts.items() if c != 1}
        if not bad:
            ob.status = "inconclusive"
            ob.detail = ("solver found a deviation (%s) but in the native session every one of %d requests got exactly one response"
                         % ("; ".join(sorted(set(fails)))[:300], len(IDS)))
            ob.extra["native_counts"] = counts
            continue
        rec = {"property": out.prop, "role": ob.role, "solver_findings": sorted(set(fails))[:6], "scenario": {"kind": "lsp_session", "messages": SESSION},
               "native": {"responses_per_id": counts, "server_alive": res["alive"], "sessions": ["basic", "cancel_during_init", "cancel_in_flight"]}, "violates": True}
        path = mflow.write_replay(out, ob.oid.replace("/", "_"), rec)
        ob.counterexamples = [{"findings": sorted(set(fails))[:4], "responses_per_id": counts, "replay": path}]
        kf = match_known(out.prop, ob.role, ob.oid.split("/")[1], {"ids": sorted(bad)})
        if kf:
            ob.status = "known"
            out.known("%s [%s]" % (kf["what"], ob.oid))
        else:
            ob.status = "violation"
            ob.detail = "%s — real server: responses per request id %s" % ("; ".join(sorted(set(fails)))[:300], bad)
            out.violation(path, "(%s: request ids %s did not get exactly one response)" % (ob.oid, sorted(bad)))


def run(out):
    out.functions = ["run_ls (async body: initialize handshake)", "on_request_handler (async body)", "per-method task closures", "ServerContext::task (async body + spawned future)",
                     "ServerMessageProcessor::handle_message (async body)"]
    out.bounds = {"paths": "all paths from state 0 of each async state machine with awaits completing; every method arm, extract Ok/Err, cancelled/not, handler Some/None"}
    out.outside = ["a handler that panics inside the spawned task (no catch_unwind; unwinding edges are not followed)",
                   "what lsp_server::Connection::initialize_start does with messages that arrive before a valid initialize (library code: requests get ServerNotInitialized)",
                   "tokio scheduling, ordering between tasks, the transport"]
    out.assumptions = ["awaits complete (Future::poll returns Ready)", "ServerContext::send and crossbeam Sender::send deliver the message",
                       "Request::extract returns Ok((id of the request, params)) or Err (lsp_server contract)",
                       "a future handed to tokio::spawn runs to completion"]
    mc = mflow.MContext(out)
    pending = []
    try:
        fns = mc.fns("emmylua_ls", WANT)
        dispatcher(out, mc, fns, pending)
        task_wrapper(out, mc, fns, pending)
        routing(out, mc, fns, pending)
        handshake(out, mc, pending)
        shutdown_window(out, mc, pending)
        preinit_window(out, mc, pending)
        main_loop(out, mc, pending)
    except (symex.Unsupported, RuntimeError, KeyError, ValueError, IndexError, AttributeError) as e:
        import traceback
        out.fatal = "engine M could not encode the current source: %r\n%s" % (e, traceback.format_exc()[-1500:])
    replay(out, pending)
    mc.finish()
