"""C23 — Positions follow the LSP encoding and line-ending rules (engine K)."""
import shapes as S
from kflow import HDef, run_k
import docflow

FUNCS = ["emmylua_parser::LineIndex::parse", "LineIndex::get_line_col", "LineIndex::get_offset",
         "LineIndex::get_line", "LineIndex::line_count"]


def hdefs(tier):
    hs = []
    if tier == "quick":
        shp16 = [s for s in S.shapes(2, widths=(1, 2, 4)) if any(w > 1 for w in s)]
        shp16 += [(1, 4, 1), (4, 1, 4), (1, 1, 4), (4, 1, 1), (2, 4, 1), (4, 2, 2)]
        shpeol = S.shapes(3, widths=(1, 2))
    else:
        shp16 = [s for s in S.shapes(4, widths=(1, 2, 3, 4)) if any(w > 1 for w in s)]
        shpeol = S.shapes(4, widths=(1, 2, 4))
    for s in shp16:
        L, K, n, arr = S.byte_len(s), len(s), S.name(s), S.rust_array(s)
        uw = L + 3
        ctx = {"has_astral": 4 in s}
        b = {"shape": list(s), "bytes": L, "unwind": uw,
             "symbolic": "class of every 1-byte char (LF | other), char index"}
        hs.append(HDef("c23_u16_" + n, "utf16_columns",
                       "#[kani::proof] #[kani::unwind(%d)] pub fn c23_u16_%s() { utf16_columns::<%d, %d>(%s) }" % (uw, n, L, K, arr),
                       "get_line_col(o).character == UTF-16 length of the line prefix, and get_offset inverts it, for every char boundary o",
                       b, ctx, FUNCS))
    for s in shpeol:
        if tier == "quick" and not any(w == 1 for w in s):
            continue
        L, K, n, arr = S.byte_len(s), len(s), S.name(s), S.rust_array(s)
        uw = L + 3
        ctx = {"ascii_chars": sum(1 for w in s if w == 1)}
        b = {"shape": list(s), "bytes": L, "unwind": uw,
             "symbolic": "class of every 1-byte char (LF | CR | other), char index, line, character"}
        hs.append(HDef("c23_eol_" + n, "line_terminators",
                       "#[kani::proof] #[kani::unwind(%d)] pub fn c23_eol_%s() { line_terminators::<%d, %d>(%s); eol_clamp::<%d, %d>(%s) }" % (uw, n, L, K, arr, L, K, arr),
                       "line_count and get_line agree with a reference splitter for LF, CRLF and lone CR; (line,0) is the line start; "
                       "get_offset(line, character) stays within the line's content and clamps to its end",
                       b, ctx, FUNCS))
    return hs


def run(out):
    tier = out.tier
    hs = hdefs(tier)
    out.functions = FUNCS
    out.bounds = {"text": "every byte-width shape of <= %d characters; 1-byte characters symbolic over {LF, CR, other}; "
                          "multi-byte representatives U+00E9 (1 unit), U+20AC (1 unit), U+1F600 (2 units)" % (3 if tier == "quick" else 4),
                  "harnesses": len(hs)}
    out.outside = ["texts longer than the bound", "negotiated position encodings (the server advertises none, so UTF-16 is mandated)",
                   "the boundary strictly inside a CRLF pair"]
    out.assumptions = [
        "one representative character per UTF-8 width / UTF-16 length class is class-complete for LineIndex (it only uses len_utf8/len_utf16/byte comparisons)",
        "the server does not negotiate positionEncoding (checked syntactically: no position_encoding assignment in emmylua_ls/src/handlers)",
        "core::str::count::do_count_chars loops unwound once; unwinding assertions prove them unreachable",
    ]
    # the encoding the oracle uses is only right while the server advertises none
    import subprocess
    g = subprocess.run(["grep", "-rn", "position_encoding", "/repo/crates/emmylua_ls/src"], capture_output=True, text=True).stdout
    adv = [l for l in g.splitlines() if "None" not in l and "//" not in l.split(":", 2)[-1][:4]]
    out.extra_cov["position_encoding_mentions"] = g.strip().splitlines()[:5]
    if adv:
        out.fatal = "server mentions position_encoding (%s); the UTF-16 oracle may no longer apply" % adv[0]
    run_k(out, "c23", "parser", hs, jobs=14, harness_timeout=900,
          overall_timeout=3600 if tier == "quick" else 6 * 3600, mem_gb=12)
    docflow.run_doc(out, ["doc_ranges"])
