"""C21 — Reported diagnostics are well-formed and complete for syntax errors (engine K + M)."""
import json
import re
import time

import z3

import docflow
import mflow
import srcinfo
import symex
from core import Obligation, match_known
from symex import Agg, BV

CA = "/repo/crates/emmylua_code_analysis/src"


def translate(out, mc, pending):
    fns = mc.fns("emmylua_code_analysis", r"checker::<impl[^>]*>::translate_range\(")
    ob = out.add(Obligation("range/translate_range_maps_both_ends", "M",
                            "translate_range(range) is Some(Range{start: get_line_col(range.start()), end: get_line_col(range.end())}) of the diagnostic's own document, "
                            "and None only when the document or one of the two conversions is missing (then add_diagnostic falls back to 0:0)",
                            {"function": "DiagnosticContext::translate_range", "free": "document present?, both get_line_col outcomes"}, [f.name for f in fns]))
    cand = [f for f in fns if f.name.endswith("::translate_range")]
    if len(cand) != 1:
        ob.status = "inconclusive"
        ob.detail = "%d candidates" % len(cand)
        return
    ex = symex.Executor(fns)
    paths = ex.run(cand[0])
    fails = []
    n_some = 0
    for p in paths:
        if p.kind != "return":
            fails.append("path kind %s" % p.kind)
            continue
        glc = [e for e in p.trace if re.search(r"LuaDocument::get_line_col$", e.get("short", ""))]
        doc = mflow.find_event(p, r"Vfs::get_document$")
        r = p.ret
        if isinstance(r, Agg) and r.variant == "Some":
            n_some += 1
            if doc is None or "(arg,1)" not in doc["akeys"][1]:
                fails.append("the range is translated with a document that is not the diagnostic's file")
            if len(glc) != 2:
                fails.append("%d position conversions for a range" % len(glc))
                continue
            want_s = "TextRange::start,(opq:(arg,2))"
            want_e = "TextRange::end,(opq:(arg,2))"
            if want_s not in glc[0]["akeys"][1] or want_e not in glc[1]["akeys"][1]:
                fails.append("the two conversions are not of range.start() and range.end() in this order")
            rng = r.fields[0]
            if not isinstance(rng, Agg) or not rng.names or rng.names != ["start", "end"]:
                fails.append("result is not a Range{start,end} aggregate")
                continue
            for which, ev, want in (("start", glc[0], want_s), ("end", glc[1], want_e)):
                pos = rng.fields[rng.names.index(which)]
                if not (isinstance(pos, Agg) and pos.names == ["line", "character"]):
                    fails.append("Range.%s is not a Position{line,character}" % which)
                    continue
                for fname, idx in (("line", 0), ("character", 1)):
                    v = pos.fields[pos.names.index(fname)]
                    org = ex.term_origins(v.term) if isinstance(v, BV) else []
                    good = [o for o in org if "LuaDocument::get_line_col" in o and want in o and o.rstrip(")").endswith(",%d" % idx)]
                    if len(org) != 1 or not good:
                        fails.append("Range.%s.%s is not component %d of get_line_col(range.%s())" % (which, fname, idx, which))
        else:
            # None: allowed only if something was missing
            known_missing = False
            for e in ([doc] if doc else []) + glc:
                d = ex.discriminant(p.state, e["result"])
                if mc.implied_eq(p, d.term, 0):
                    known_missing = True
            if not known_missing:
                fails.append("translate_range returns None although the document and both positions exist")
    ob.witness = n_some > 0
    if n_some == 0:
        fails.append("no path returns Some")
    if fails:
        ob.status = "pending"
        ob.detail = "; ".join(sorted(set(fails)))
        pending.append((ob, fails))
    else:
        ob.status = "pass"


def syntax_errors(out, mc, pending):
    fns = mc.fns("emmylua_code_analysis", r"syntax_error::SyntaxErrorChecker as Checker>::check\(|syntax_error::<impl[^>]*>::check\(")
    ob = out.add(Obligation("syntax/every_parse_error_becomes_one_diagnostic", "M",
                            "SyntaxErrorChecker::check hands every parse error of the file to add_diagnostic exactly once, with code syntax-error for "
                            "LuaParseErrorKind::SyntaxError and doc-syntax-error for DocError, the error's own range and its own message",
                            {"function": "SyntaxErrorChecker::check (first loop)", "errors": "<= 2 (loop unrolled)"}, [f.name for f in fns]))
    cand = [f for f in fns if f.name.endswith("::check")]
    if len(cand) != 1:
        ob.status = "inconclusive"
        ob.detail = "%d candidates" % len(cand)
        return
    fn = cand[0]
    codes = srcinfo.enum_variants(CA + "/diagnostic/lua_diagnostic_code.rs", "DiagnosticCode")
    kinds = None
    p = srcinfo.find_def("/repo/crates/emmylua_parser/src", "enum", "LuaParseErrorKind")
    kinds = srcinfo.enum_variants(p, "LuaParseErrorKind") if p else ["SyntaxError", "DocError"]
    ex = symex.Executor(fns, enums={"DiagnosticCode": codes, "LuaParseErrorKind": kinds}, max_visits=symex.visits(3), max_paths=30000)
    # the second loop (token walk) is cut short: the iterator over descendants yields nothing
    def m_desc_next(ex_, st, cname, args, dest_ty, fn_):
        return Agg("Option", "None", [])
    ex.models.append((r"PreorderWithTokens.*as Iterator>::next$|descendants_with_tokens.*::next$|SyntaxElementChildren.*::next$", m_desc_next))
    t0 = time.time()
    paths = ex.run(fn)
    out.extra_cov.setdefault("symbolic_execution", []).append(
        {"function": fn.name, "blocks": len(fn.blocks), "paths": len(paths), "seconds": round(time.time() - t0, 2), **ex.stats})
    fails = []
    seen = set()
    for p in paths:
        if p.kind == "cut":
            continue
        if p.kind != "return":
            fails.append("path kind %s %s" % (p.kind, p.info[:50]))
            continue
        nexts = [e for e in p.trace if re.search(r"::next$", e.get("short", "")) and "LuaParseError" in e["callee"]]
        somes = [e for e in nexts if mc.implied_eq(p, ex.discriminant(p.state, e["result"]).term, 1)]
        adds = [e for e in p.trace if re.search(r"DiagnosticContext::add_diagnostic$", e.get("short", ""))]
        seen.add(len(somes))
        if len(adds) != len(somes):
            fails.append("%d parse errors yielded but %d diagnostics added" % (len(somes), len(adds)))
            continue
        for e, a in zip(somes, adds):
            err = symex.LazyPayload(ex, p.state, e["result"], "Some")[0]
            errk = ex.deep_key(p.state, err)
            code = a["args"][1]
            kd = None
            # the kind is read from the error: find its discriminant variable on this path
            kind_val = ex.child(p.state, ex.deref(p.state, err) if isinstance(err, symex.Ref) else err, ("field", 0, "LuaParseErrorKind"))
            # field order of LuaParseError
            if not isinstance(code, Agg) or code.variant not in ("SyntaxError", "DocSyntaxError"):
                fails.append("diagnostic code of a parse error is %r" % (code,))
                continue
            # range and message arguments come from this error
            rk, mk = a["akeys"][2], a["akeys"][3]
            ek = symex.kfmt(e["result"].k) if isinstance(e["result"], symex.Opaque) else "?"
            if ek not in rk or ek not in mk:
                fails.append("range/message of the diagnostic do not come from the parse error it reports")
        # code <-> kind: for one error, both codes must be reachable and tied to the kind switch
    # kind/code correspondence: among paths with exactly one error, SyntaxError code iff kind discr == index of SyntaxError
    one = [p for p in paths if p.kind == "return"]
    for p in one:
        nexts = [e for e in p.trace if re.search(r"::next$", e.get("short", "")) and "LuaParseError" in e["callee"]]
        somes = [e for e in nexts if mc.implied_eq(p, ex.discriminant(p.state, e["result"]).term, 1)]
        adds = [e for e in p.trace if re.search(r"DiagnosticContext::add_diagnostic$", e.get("short", ""))]
        if len(somes) != len(adds):
            continue
        fields = srcinfo.struct_fields(srcinfo.find_def("/repo/crates/emmylua_parser/src", "struct", "LuaParseError"), "LuaParseError")
        ik = fields.index("kind")
        for e, a in zip(somes, adds):
            err = symex.LazyPayload(ex, p.state, e["result"], "Some")[0]
            errv = ex.deref(p.state, err) if isinstance(err, symex.Ref) else err
            kv = ex.child(p.state, errv, ("field", ik, "LuaParseErrorKind"))
            d = ex.discriminant(p.state, kv)
            code = a["args"][1]
            if isinstance(code, Agg) and code.variant in ("SyntaxError", "DocSyntaxError"):
                want_idx = kinds.index("SyntaxError") if code.variant == "SyntaxError" else kinds.index("DocError")
                if not mc.implied_eq(p, d.term, want_idx):
                    fails.append("a %s parse error is reported as %s" % ("doc" if want_idx == kinds.index("SyntaxError") else "syntax", code.variant))
    ob.witness = max(seen or [0]) >= 1
    ob.extra = {"error_counts_seen": sorted(seen)}
    if max(seen or [0]) < 1:
        fails.append("no path with a parse error")
    if fails:
        ob.status = "pending"
        ob.detail = "; ".join(sorted(set(fails)))[:600]
        pending.append((ob, fails))
    else:
        ob.status = "pass"


def no_duplicates(out, mc, pending):
    """the last clause of C21: the list of a file never contains exact duplicates.  Decided at the only place
    diagnostics enter the list (DiagnosticContext::add_diagnostic): a push is guarded by a membership test of the
    very Diagnostic being pushed (slice::contains answered false, or a HashSet::insert of it answered true)."""
    import c20
    fns = mc.fns("emmylua_code_analysis", r"is_checker_enable_by_code|fn .*checker::<impl[^>]*>::(add_diagnostic|get_severity|should_report_diagnostic)\(")
    fn = [f for f in fns if re.search(r"checker::<impl[^>]*>::add_diagnostic$", f.name)]
    ob = out.add(Obligation("duplicates/push_guarded_by_membership_test", "M",
                            "on every path of add_diagnostic that pushes a Diagnostic, the same Diagnostic value was first looked up in the list it is pushed to "
                            "(contains == false on that path, or a set insert == true): an exact duplicate is never appended",
                            {"function": "DiagnosticContext::add_diagnostic", "paths": "all"}, [f.name for f in fn]))
    if len(fn) != 1:
        ob.status = "inconclusive"
        ob.detail = "add_diagnostic: %d candidates" % len(fn)
        return
    ex = symex.Executor(fns)
    ex.inline = [r"DiagnosticContext::<'_>::get_severity$"]
    fails = []
    pushes_seen = 0
    for p in ex.run(fn[0]):
        if p.kind != "return":
            fails.append("path kind %s" % p.kind)
            continue
        evs = p.trace
        for i, e in enumerate(evs):
            if not re.search(r"Vec::push$", e.get("short", "")):
                continue
            pushes_seen += 1
            pushed = e["akeys"][1]
            ok = False
            for g in evs[:i]:
                sn = g.get("short", g["callee"])
                if re.search(r"contains$", sn) and len(g["akeys"]) > 1 and isinstance(g["result"], symex.BoolV):
                    same = pushed in g["akeys"][1] or g["akeys"][1].lstrip("&") in pushed
                    if same and mc.check(list(p.pc) + [g["result"].term], "dup")[0] == "unsat":
                        ok = True
                if re.search(r"HashSet::insert$", sn) and isinstance(g["result"], symex.BoolV):
                    if mc.check(list(p.pc) + [z3.Not(g["result"].term)], "dup")[0] == "unsat":
                        ok = True
            if not ok:
                fails.append("a Diagnostic is pushed without asking whether the list already holds an equal one")
    ob.witness = pushes_seen > 0
    if pushes_seen == 0:
        fails.append("no pushing path")
    if fails:
        ob.status = "pending"
        ob.detail = "; ".join(sorted(set(fails)))[:400]
        pending.append((ob, fails))
    else:
        ob.status = "pass"


TEXTS = [
    ("syntax_error", "local = 1\n"),
    ("doc_error", "---@class\nlocal x = 1\n"),
    ("two_errors", "local = 1\nlocal = 2\n"),
    ("same_message_twice", "local t = {}\nt.a = = 1\nt.b = = 2\n"),
    ("astral_in_range", "local s = \"\U0001F600 oops\n"),
    ("astral_before_error", "local e = '\U0001F600' local = 1\n"),
    ("empty_range_doc_error", "---@param\nlocal function f() end\n---@field\n"),
    ("error_at_end_of_file", "local x = ("),
    ("crlf_file", "local a = 1\r\nlocal = 2\r\n"),
    ("cjk_line", "local 名 = = 1\n"),
    ("double_assign", "x = = 1\n"),
    ("token_soup", "x = = = )) local function end end if then\n"),
    ("truncated_call", "print(a, b,\n"),
]


def native_battery():
    """every parse error of each text must appear as a diagnostic with the code of its kind at ITS location
    (LSP range computed independently of LineIndex in vreplay); every reported range is ordered"""
    runs, hit = [], None
    for bid, text in TEXTS:
        sc = {"kind": "diagnose", "target": "t.lua", "emmyrc": {"diagnostics": {}}, "files": [{"name": "t.lua", "text": text}]}
        res = mflow.native_replay(sc)
        if "error" in res:
            runs.append({"id": bid, "error": res["error"]})
            continue
        problems = []
        diags = res.get("diagnostics", [])
        for d in diags:
            if d["start"] > d["end"]:
                problems.append("diagnostic with start after end: %s" % d)
        keys = [json.dumps(d, sort_keys=True) for d in diags]
        for k in sorted(set(keys)):
            if keys.count(k) > 1:
                problems.append("exact duplicate diagnostic (%d times): %s" % (keys.count(k), k[:160]))
        for pe in res.get("parse_errors", []):
            code = "syntax-error" if pe["kind"] == "SyntaxError" else "doc-syntax-error"
            if not any(d["code"] == code and d["start"] == pe["start"] and d["end"] == pe["end"] for d in diags):
                problems.append("parse error %s at %s-%s has no %s diagnostic at that range" % (pe["message"][:40], pe["start"], pe["end"], code))
        runs.append({"id": bid, "parse_errors": len(res.get("parse_errors", [])), "violates": bool(problems), "problems": problems[:3]})
        if problems and hit is None:
            hit = (bid, sc, res, problems)
    return runs, hit


def replay(out, pending):
    if not pending:
        return
    runs, hit = native_battery()
    for ob, fails in pending:
        if hit is None:
            ob.status = "inconclusive"
            ob.detail = "solver found a deviation (%s) but none of the %d native texts shows a violation" % ("; ".join(sorted(set(fails)))[:300], len(TEXTS))
            ob.extra["battery"] = runs
            continue
        rec = {"property": out.prop, "role": ob.role, "solver_findings": sorted(set(fails))[:6], "scenario": hit[1],
               "native": {"problems": hit[3], "diagnostics": hit[2].get("diagnostics"), "parse_errors": hit[2].get("parse_errors")}, "violates": True, "battery": runs}
        path = mflow.write_replay(out, ob.oid.replace("/", "_"), rec)
        ob.counterexamples = [{"findings": sorted(set(fails))[:4], "native_scenario": hit[0], "problems": hit[3][:2], "replay": path}]
        kf = match_known(out.prop, ob.role, hit[0], {})
        if kf:
            ob.status = "known"
            out.known("%s [%s]" % (kf["what"], ob.oid))
        else:
            ob.status = "violation"
            ob.detail = "%s — confirmed natively (%s: %s)" % ("; ".join(sorted(set(fails)))[:300], hit[0], hit[3][0][:160])
            out.violation(path, "(%s: %s)" % (ob.oid, hit[0]))


def run(out):
    out.functions = ["LuaDocument::to_lsp_range / to_lsp_position / to_rowan_range", "DiagnosticContext::translate_range", "SyntaxErrorChecker::check",
                     "DiagnosticContext::add_diagnostic + get_severity"]
    out.bounds = {"M": "all paths of translate_range; SyntaxErrorChecker::check with <= 2 parse errors (token walk cut)"}
    out.outside = ["message placeholder substitution (the i18n shim is identity)", "ranges computed by the individual checkers", "diagnostics that reach a client by another way than DiagnosticContext::add_diagnostic",
                   "literal checks of the token walk in SyntaxErrorChecker (second loop)", "known code names / severity presence are covered by C20's gating obligation"]
    out.assumptions = ["LuaDocument::get_line_col is the conversion verified by the K harnesses of this property (to_lsp_range forwards to it)",
                       "rustc MIR semantics; unwinding edges not followed"]
    docflow.run_doc(out, ["doc_ranges"])
    mc = mflow.MContext(out)
    pending = []
    try:
        translate(out, mc, pending)
        syntax_errors(out, mc, pending)
        no_duplicates(out, mc, pending)
        # construction of the Diagnostic (range = translated range or 0:0, code name, severity): shared with C20
        import c20
        pending += c20.gating(out, mc)
    except (symex.Unsupported, RuntimeError, KeyError, ValueError, IndexError, AttributeError, TypeError) as e:
        import traceback
        out.fatal = "engine M could not encode the current source: %r\n%s" % (e, traceback.format_exc()[-1500:])
    replay(out, pending)
    mc.finish()
