"""C19 — Diagnostic suppression comments affect exactly their scope (engine M + K lemmas)."""
import re
import time

import z3

import mflow
import srcinfo
import symex
from core import Obligation, match_known
from symex import Agg, BV, BoolV, Opaque, Ref

CA = "/repo/crates/emmylua_code_analysis/src"
NL = 5          # lines in the symbolic line table
W = 32


def bv(x):
    return z3.BitVecVal(x, W)


class Universe:
    """symbolic document geometry shared by the glue and the matcher"""

    def __init__(self):
        self.L = [bv(0)] + [z3.BitVec("L%d" % i, W) for i in range(1, NL)]
        self.TLEN = z3.BitVec("TLEN", W)
        self.cs, self.ce = z3.BitVec("cs", W), z3.BitVec("ce", W)
        self.bs, self.be = z3.BitVec("bs", W), z3.BitVec("be", W)
        self.ds, self.de = z3.BitVec("ds", W), z3.BitVec("de", W)
        self.Y = z3.BitVec("diag_code", 8)
        big = bv(1 << 20)
        c = [z3.ULT(self.TLEN, big)]
        for i in range(1, NL):
            c.append(z3.ULT(self.L[i - 1], self.L[i]))
        c.append(z3.ULE(self.L[NL - 1], self.TLEN))
        # the comment: non-empty, inside the text, does not end at a line start (its range excludes the line terminator)
        c += [z3.ULT(self.cs, self.ce), z3.ULE(self.ce, self.TLEN)]
        for i in range(NL):
            c.append(self.ce != self.L[i])
        # the enclosing block contains the comment
        c += [z3.ULE(self.bs, self.cs), z3.ULE(self.ce, self.be), z3.ULE(self.be, self.TLEN)]
        # the diagnostic range: ordered, inside the text, not the empty range at the very end of the text
        c += [z3.ULE(self.ds, self.de), z3.ULE(self.de, self.TLEN), z3.Not(z3.And(self.ds == self.de, self.ds == self.TLEN))]
        self.base = c

    def line_is(self, o, i):
        c = [z3.ULE(self.L[i], o)]
        if i + 1 < NL:
            c.append(z3.ULT(o, self.L[i + 1]))
        return z3.And(c)

    def on_line(self, s, e, i):
        """[s,e) lies on line i (may touch neither the previous nor the next line's first byte)"""
        c = [self.line_is(s, i)]
        if i + 1 < NL:
            c.append(z3.ULT(e, self.L[i + 1]) if True else None)
        return z3.And(c)

    def line_range(self, i):
        """contract of LuaDocument::get_line_range(i): (exists?, start, end)"""
        if i >= NL:
            return z3.BoolVal(False), None, None
        if i + 1 < NL:
            return z3.BoolVal(True), self.L[i], self.L[i + 1]
        return z3.UGT(self.TLEN, self.L[i]), self.L[i], self.TLEN


def text_range(s, e):
    return Agg("TextRange", None, [BV(s), BV(e)])


def install_models(ex, U):
    def m_comment_range(ex_, st, cname, args, dest_ty, fn):
        return text_range(U.cs, U.ce)

    def m_block_range(ex_, st, cname, args, dest_ty, fn):
        return text_range(U.bs, U.be)

    def as_range(ex_, st, v):
        """a TextRange the analyzer obtained from some other syntax node (e.g. the tag itself): the analyzer only sees
        nodes below its comment, so it is an arbitrary range inside the comment"""
        if isinstance(v, Agg):
            return v
        if isinstance(v, symex.Ref):
            return as_range(ex_, st, ex_.deref(st, v))
        if isinstance(v, Opaque):
            a = z3.BitVec(ex_.sym((v.k, "range_start")), U.cs.size())
            b = z3.BitVec(ex_.sym((v.k, "range_end")), U.cs.size())
            for c in (z3.ULE(U.cs, a), z3.ULE(a, b), z3.ULE(b, U.ce)):
                st.pc.append(c)
            return text_range(a, b)
        raise symex.Unsupported("not a range: %r" % (v,))

    def m_start(ex_, st, cname, args, dest_ty, fn):
        return as_range(ex_, st, args[0]).fields[0]

    def m_end(ex_, st, cname, args, dest_ty, fn):
        return as_range(ex_, st, args[0]).fields[1]

    def m_new(ex_, st, cname, args, dest_ty, fn):
        s, e = args[0], args[1]
        # TextRange::new asserts start <= end (panics otherwise): record the obligation
        st.obligations.append(("TextRange::new start<=end", z3.ULE(s.term, e.term), fn.name))
        return text_range(s.term, e.term)

    def m_get_document(ex_, st, cname, args, dest_ty, fn):
        return Agg("Option", "Some", [Opaque("LuaDocument", ("document",))])

    def m_get_line(ex_, st, cname, args, dest_ty, fn):
        off = args[1].term
        return [(Agg("Option", "Some", [BV(z3.BitVecVal(i, 64))]), U.line_is(off, i)) for i in range(NL)]

    def m_get_line_range(ex_, st, cname, args, dest_ty, fn):
        line = args[1].term
        outs = []
        for i in range(NL + 2):
            ok, s, e = U.line_range(i)
            here = line == z3.BitVecVal(i, 64)
            if s is None:
                outs.append((Agg("Option", "None", []), here))
            else:
                outs.append((Agg("Option", "Some", [text_range(s, e)]), z3.And(here, ok)))
                outs.append((Agg("Option", "None", []), z3.And(here, z3.Not(ok))))
        return outs

    def m_get_offset(ex_, st, cname, args, dest_ty, fn):
        line, col = args[1].term, args[2].term
        outs = []
        for i in range(NL + 3):
            here = line == z3.BitVecVal(i, 64)
            if i < NL:
                # only column 0 has an exact contract (start of the line); other columns stay abstract
                outs.append((Agg("Option", "Some", [BV(U.L[i])]), z3.And(here, col == z3.BitVecVal(0, 64))))
            else:
                outs.append((Agg("Option", "None", []), here))
        return outs

    def m_intersect(ex_, st, cname, args, dest_ty, fn):
        a, b = args[0], args[1]
        lo = z3.If(z3.UGE(a.fields[0].term, b.fields[0].term), a.fields[0].term, b.fields[0].term)
        hi = z3.If(z3.ULE(a.fields[1].term, b.fields[1].term), a.fields[1].term, b.fields[1].term)
        ok = z3.ULE(lo, hi)
        return [(Agg("Option", "Some", [text_range(lo, hi)]), ok), (Agg("Option", "None", []), z3.Not(ok))]

    def m_is_empty(ex_, st, cname, args, dest_ty, fn):
        a = ex_.deref(st, args[0])
        return BoolV(a.fields[0].term == a.fields[1].term)

    def m_contains(ex_, st, cname, args, dest_ty, fn):
        a = ex_.deref(st, args[0])
        o = args[1].term
        return BoolV(z3.And(z3.ULE(a.fields[0].term, o), z3.ULT(o, a.fields[1].term)))

    def m_contains_range(ex_, st, cname, args, dest_ty, fn):
        a, b = ex_.deref(st, args[0]), ex_.deref(st, args[1])
        return BoolV(z3.And(z3.ULE(a.fields[0].term, b.fields[0].term), z3.ULE(b.fields[1].term, a.fields[1].term)))

    def m_code_eq(ex_, st, cname, args, dest_ty, fn):
        a, b = args[0], args[1]
        for _ in range(3):
            a, b = ex_.deref(st, a), ex_.deref(st, b)
        if isinstance(a, BV) and isinstance(b, BV):
            return BoolV(a.term == b.term)
        return NotImplemented

    def m_is_some_and(ex_, st, cname, args, dest_ty, fn):
        return NotImplemented

    ex.models += [
        (r"LuaComment as LuaAstNode>::get_range$", m_comment_range),
        (r"LuaBlock as LuaAstNode>::get_range$", m_block_range),
        (r"^TextRange::start$", m_start), (r"^TextRange::end$", m_end), (r"^TextRange::new$", m_new),
        (r"^TextRange::intersect$", m_intersect), (r"^TextRange::is_empty$", m_is_empty),
        (r"^TextRange::contains$", m_contains), (r"^TextRange::contains_range$", m_contains_range),
        (r"Vfs::get_document$", m_get_document),
        (r"LuaDocument::<'_>::get_line$", m_get_line),
        (r"LuaDocument::<'_>::get_line_range$", m_get_line_range),
        (r"LuaDocument::<'_>::get_offset$", m_get_offset),
        (r"DiagnosticCode as PartialEq>::eq$", m_code_eq),
    ]
    ex.type_hooks += [
        (r"DiagnosticCode$", lambda ex_, st, ty, key: BV(z3.BitVec(ex_.sym(key), 8)) if not ty.startswith("&") else None),
        (r"^(rowan::)?TextSize$", lambda ex_, st, ty, key: BV(z3.BitVec(ex_.sym(key), W))),
        (r"^(rowan::)?TextRange$", lambda ex_, st, ty, key: None),
    ]
    ex.inline += [r"^DiagnosticAction::new$"]


def actions_of(path, ex):
    """(kind, range-start, range-end, code-or-None) of every add_diagnostic_action event, plus file-wide disables"""
    acts, filewide = [], []
    for e in path.trace:
        sh = e.get("short", "")
        if sh.endswith("DiagnosticIndex::add_diagnostic_action"):
            a = e["args"][2]
            if not isinstance(a, Agg) or len(a.fields) != 2 or not isinstance(a.fields[0], Agg):
                raise symex.Unsupported("action is not a DiagnosticAction aggregate: %r" % (a,))
            rng, kind = a.fields
            code = kind.fields[0] if kind.fields else None
            acts.append({"kind": kind.variant, "s": rng.fields[0].term, "e": rng.fields[1].term,
                         "code": code.term if isinstance(code, BV) else None, "val": a})
        elif sh.endswith("DiagnosticIndex::add_file_diagnostic_disabled"):
            c = e["args"][2]
            filewide.append(c.term if isinstance(c, BV) else None)
    return acts, filewide


def yielded_codes(path, ex, mc):
    """codes the code-list iterator yielded that parsed (from_str -> Ok) on this path"""
    out = []
    for e in path.trace:
        if re.search(r"DiagnosticCode as FromStr>::from_str$", e["callee"]):
            d = ex.discriminant(path.state, e["result"])
            if mc.implied_eq(path, d.term, 0):
                out.append(symex.LazyPayload(ex, path.state, e["result"], "Ok")[0].term)
    return out


def match_formula(ex_fns, U, enums, act, disable=True):
    """run the real DiagnosticAction::is_match on (action, is_disable, &D, &Y); returns a z3 formula"""
    fn = [f for f in ex_fns if re.search(r"diagnostic_action::<impl[^>]*>::is_match$", f.name)][0]
    ex = symex.Executor(ex_fns, enums=enums)
    install_models(ex, U)
    st = symex.State()
    a_ref = Ref(("heap", st.new_cell(act["val"])), (), False)
    d_ref = Ref(("heap", st.new_cell(text_range(U.ds, U.de))), (), False)
    y_ref = Ref(("heap", st.new_cell(BV(U.Y))), (), False)
    paths = ex.run(fn, [a_ref, BoolV(z3.BoolVal(disable)), d_ref, y_ref], st)
    terms = []
    for p in paths:
        if p.kind != "return":
            raise symex.Unsupported("is_match path kind %s: %s" % (p.kind, p.info))
        terms.append(z3.And(*(list(p.pc) + [p.ret.term])) if p.pc else p.ret.term)
    return z3.Or(terms) if terms else z3.BoolVal(False), fn


def glue(out, mc, results):
    want = (r"fn analyze_diagnostic_disable(_next_line|_line)?\(|diagnostic_action::<impl[^>]*>::(is_match|new)\(|"
            r"diagnostic::<impl[^>]*>::is_file_diagnostic_code_disabled\(")
    fns = mc.fns("emmylua_code_analysis", want)
    enums = {"DiagnosticActionKind": srcinfo.enum_variants(CA + "/db_index/diagnostic/diagnostic_action.rs", "DiagnosticActionKind")}
    U = Universe()
    specs = [
        ("disable_next_line", r"^analyze_diagnostic_disable_next_line$"),
        ("disable_line", r"^analyze_diagnostic_disable_line$"),
        ("disable_block", r"^analyze_diagnostic_disable$"),
    ]
    for role, rx in specs:
        cand = [f for f in fns if re.search(rx, f.name)]
        obs = {}
        for suffix, text in (
            ("covers_its_scope", "a diagnostic inside the scope (%s) is suppressed when the code is listed or no list is given"),
            ("nothing_outside_scope", "a diagnostic on another line / outside the block is never suppressed by this comment"),
            ("only_listed_codes", "a suppressed diagnostic has a listed code (or there is no list); a list never yields a suppress-all action; one action per listed known code"),
        ):
            scope = {"disable_next_line": "the comment itself and the line directly after it", "disable_line": "the comment's own line",
                     "disable_block": "the enclosing block"}[role]
            ob = out.add(Obligation("%s/%s" % (role, suffix), "M", text % scope if "%s" in text else text,
                                    {"function": rx, "lines": NL, "symbolic": "line starts, text length, comment range, block range, diagnostic range, codes"}, []))
            obs[suffix] = ob
        if len(cand) != 1:
            for ob in obs.values():
                ob.status = "inconclusive"
                ob.detail = "%d candidates for %s in MIR" % (len(cand), rx)
            continue
        fn = cand[0]
        for ob in obs.values():
            ob.functions = [fn.name, "DiagnosticAction::is_match"]
        ex = symex.Executor(fns, enums=enums, max_visits=symex.visits(3))
        install_models(ex, U)
        st = symex.State()
        st.pc = list(U.base)
        t0 = time.time()
        paths = ex.run(fn, None, st)
        out.extra_cov.setdefault("symbolic_execution", []).append(
            {"function": fn.name, "blocks": len(fn.blocks), "paths": len(paths), "seconds": round(time.time() - t0, 2), **ex.stats})
        fails = {k: [] for k in obs}
        cex = {}
        reached = {k: 0 for k in obs}
        for p in paths:
            if p.kind == "cut":
                continue
            if p.kind != "return":
                fails["covers_its_scope"].append("path kind %s: %s" % (p.kind, p.info[:80]))
                continue
            for (what, cond, where) in p.state.obligations:
                r, m = mc.check(list(p.pc) + [z3.Not(cond)], "oblig")
                if r != "unsat":
                    fails["covers_its_scope"].append("%s can fail (panic) in %s" % (what, where.split("::")[-1]))
            acts, filewide = actions_of(p, ex)
            codes = yielded_codes(p, ex, mc)
            lst = mflow.find_event(p, r"LuaDocTagDiagnostic::get_code_list$")
            has_list = lst is not None and mc.implied_eq(p, ex.discriminant(p.state, lst["result"]).term, 1)
            no_list = lst is not None and mc.implied_eq(p, ex.discriminant(p.state, lst["result"]).term, 0)
            # which line does the comment end on / start on (the glue's get_line fork fixed Le on this path)
            gl = mflow.find_event(p, r"never")  # models are not events; recover Le from the pc instead
            # ---- file-level variant of `disable`: top-level block
            is_file = None
            if role == "disable_block":
                ev = mflow.find_event(p, r"LuaBlock as LuaAstNode>::get_parent")
                if ev is not None:
                    d = ex.discriminant(p.state, ev["result"])
                    is_file = mc.implied_eq(p, d.term, 1)
            # ---- structural (unconditional): a suppress-all action needs the path to KNOW there is no code list,
            # and a coded action needs its code to be a parsed name of the list
            for a in acts:
                if a["kind"] == "DisableAll" and not no_list:
                    fails["only_listed_codes"].append("a suppress-all action is added on a path that has not established that the comment has no code list")
                if a["kind"] == "Disable" and (a["code"] is None or not any(a["code"].sexpr() == c.sexpr() for c in codes)):
                    fails["only_listed_codes"].append("an action carries a code that is not a parsed name of the comment's code list")
                if a["kind"] not in ("Disable", "DisableAll"):
                    fails["only_listed_codes"].append("a %s action is recorded by a disable comment" % a["kind"])
            if acts:
                reached["only_listed_codes"] += 1
            # ---- structural: one action per listed known code, none extra
            if has_list:
                if any(a["kind"] == "DisableAll" for a in acts):
                    fails["only_listed_codes"].append("a code list is present but a suppress-all action is added")
                n_expected = len(codes)
                n_got = len(acts) + len(filewide)
                if n_got != n_expected and not (role != "disable_block" and not acts and not codes):
                    if not (acts == [] and filewide == [] and n_expected == 0):
                        fails["only_listed_codes"].append("%d listed known codes but %d suppression entries" % (n_expected, n_got))
                for a in acts:
                    if a["kind"] not in ("Disable",):
                        fails["only_listed_codes"].append("action kind %s for a listed code" % a["kind"])
                    elif a["code"] is None or not any(a["code"].sexpr() == c.sexpr() for c in codes):
                        fails["only_listed_codes"].append("an action carries a code that is not one of the listed ones")
                for c in filewide:
                    if c is None or not any(c.sexpr() == k.sexpr() for k in codes):
                        fails["only_listed_codes"].append("a file-wide disable carries a code that is not one of the listed ones")
                reached["only_listed_codes"] += 1
            if no_list and role == "disable_block" and is_file is False and len(acts) != 1:
                fails["covers_its_scope"].append("no code list in a nested block: expected one suppress-all action, got %d" % len(acts))
            if is_file and has_list and acts:
                fails["nothing_outside_scope"].append("top-level disable with a code list adds a ranged action instead of a file-wide switch")
            # ---- geometric clauses, per action, with the real is_match
            for a in acts:
                mform, mfn = match_formula(fns, U, enums, a)
                applies = z3.BoolVal(True) if a["kind"] == "DisableAll" else (a["code"] == U.Y if a["code"] is not None else z3.BoolVal(False))
                for Ld in range(NL):
                    onl = U.on_line(U.ds, U.de, Ld)
                    if role == "disable_next_line":
                        # Le is fixed on this path: the action's end is the end of line Le+1; recover scope lines symbolically
                        for Le in range(NL - 1):
                            lec = U.line_is(U.ce, Le)
                            ok, s, e = U.line_range(Le + 1)
                            inside = None
                            if Ld == Le + 1:
                                inside = z3.And(lec, onl)
                            if inside is not None:
                                r, m = mc.check(list(p.pc) + [inside, applies, z3.Not(mform)], "cover")
                                reached["covers_its_scope"] += 1
                                if r == "sat":
                                    fails["covers_its_scope"].append("a diagnostic on the line after the comment is not suppressed")
                                    cex.setdefault("covers_its_scope", model_geo(m, U))
                            if Ld > Le + 1:
                                r, m = mc.check(list(p.pc) + [lec, onl, mform], "outside")
                                reached["nothing_outside_scope"] += 1
                                if r == "sat":
                                    fails["nothing_outside_scope"].append("a diagnostic %d line(s) below the comment's end line is suppressed" % (Ld - Le))
                                    cex.setdefault("nothing_outside_scope", model_geo(m, U))
                        for Lc in range(NL):
                            if Ld < Lc:
                                r, m = mc.check(list(p.pc) + [U.line_is(U.cs, Lc), onl, mform], "above")
                                reached["nothing_outside_scope"] += 1
                                if r == "sat":
                                    fails["nothing_outside_scope"].append("a diagnostic on a line above the comment is suppressed")
                                    cex.setdefault("nothing_outside_scope", model_geo(m, U))
                        r, m = mc.check(list(p.pc) + [z3.ULE(U.cs, U.ds), z3.ULE(U.de, U.ce), applies, z3.Not(mform)], "oncomment")
                        if r == "sat":
                            fails["covers_its_scope"].append("a diagnostic on the comment itself is not suppressed")
                            cex.setdefault("covers_its_scope", model_geo(m, U))
                    elif role == "disable_line":
                        for Le in range(NL):
                            lec = U.line_is(U.ce, Le)
                            if Ld == Le:
                                r, m = mc.check(list(p.pc) + [lec, onl, applies, z3.Not(mform)], "cover")
                                reached["covers_its_scope"] += 1
                                if r == "sat":
                                    fails["covers_its_scope"].append("a diagnostic on the comment's own line is not suppressed")
                                    cex.setdefault("covers_its_scope", model_geo(m, U))
                            else:
                                r, m = mc.check(list(p.pc) + [lec, onl, mform], "outside")
                                reached["nothing_outside_scope"] += 1
                                if r == "sat":
                                    fails["nothing_outside_scope"].append("a diagnostic on another line (%+d) is suppressed" % (Ld - Le))
                                    cex.setdefault("nothing_outside_scope", model_geo(m, U))
                    else:
                        break
                if role == "disable_block":
                    inside = z3.And(z3.ULE(U.bs, U.ds), z3.ULE(U.de, U.be), z3.ULT(U.ds, U.be))
                    r, m = mc.check(list(p.pc) + [inside, applies, z3.Not(mform)], "cover")
                    reached["covers_its_scope"] += 1
                    if r == "sat":
                        fails["covers_its_scope"].append("a diagnostic inside the enclosing block is not suppressed")
                        cex.setdefault("covers_its_scope", model_geo(m, U))
                    outside = z3.Or(z3.UGE(U.ds, U.be), z3.And(z3.ULE(U.de, U.bs), z3.ULT(U.ds, U.bs)))
                    r, m = mc.check(list(p.pc) + [outside, mform], "outside")
                    reached["nothing_outside_scope"] += 1
                    if r == "sat":
                        fails["nothing_outside_scope"].append("a diagnostic outside the enclosing block (touching it) is suppressed")
                        cex.setdefault("nothing_outside_scope", model_geo(m, U))
                # code clause
                r, m = mc.check(list(p.pc) + [mform, z3.Not(applies)], "codes")
                reached["only_listed_codes"] += 1
                if r == "sat":
                    fails["only_listed_codes"].append("a diagnostic with another code is suppressed")
            # ---- existence: the comment must produce its action whenever its scope exists
            if role in ("disable_next_line", "disable_line") and (lst is None or no_list or (has_list and codes)) and not acts:
                # the glue returned without an action: only acceptable when the scope line does not exist
                for Le in range(NL):
                    lec = U.line_is(U.ce, Le)
                    tgt = Le + 1 if role == "disable_next_line" else Le
                    ok, s, e = U.line_range(tgt)
                    r, m = mc.check(list(p.pc) + [lec, ok], "exist")
                    if r == "sat":
                        fails["covers_its_scope"].append("the line to suppress exists (line %d of %d, possibly the last line without a terminator) but no suppression is recorded" % (tgt, NL))
                        cex.setdefault("covers_its_scope", model_geo(m, U))
                        break
        for k, ob in obs.items():
            ob.witness = reached[k] > 0
            ob.extra = {"queries_reached": reached[k]}
            if k in cex:
                ob.extra["counterexample"] = cex[k]
            if reached[k] == 0 and not fails[k]:
                fails[k].append("no query reached this clause (the function adds no action on any path)")
            if fails[k]:
                ob.status = "pending"
                ob.detail = "; ".join(sorted(set(fails[k])))[:600]
                results.append((ob, fails[k], cex.get(k), role, k))
            else:
                ob.status = "pass"
    return fns, enums, U


def model_geo(m, U):
    g = lambda t: int(str(m.eval(t, model_completion=True)))
    return {"line_starts": [0] + [g(x) for x in U.L[1:]], "text_len": g(U.TLEN), "comment": [g(U.cs), g(U.ce)],
            "block": [g(U.bs), g(U.be)], "diagnostic": [g(U.ds), g(U.de)]}


def any_action(out, mc, results, fns, enums):
    """M-C19-d: is_file_diagnostic_code_disabled == OR over the file's actions of is_match(true, range, code)"""
    fn = [f for f in fns if f.name.endswith("is_file_diagnostic_code_disabled")]
    ob = out.add(Obligation("lookup/any_matching_action_suppresses", "M",
                            "is_file_diagnostic_code_disabled returns true iff some action of the file matches (is_match), for every list of <= 2 actions in any order",
                            {"function": "DiagnosticIndex::is_file_diagnostic_code_disabled", "actions": "<= 2 (loop unrolled)"}, [f.name for f in fn]))
    if len(fn) != 1:
        ob.status = "inconclusive"
        ob.detail = "function not found"
        return
    ex = symex.Executor(fns, enums=enums, max_visits=symex.visits(3))
    paths = ex.run(fn[0])
    fails = []
    n = 0
    for p in paths:
        if p.kind == "cut":
            continue
        if p.kind != "return":
            fails.append("path kind " + p.kind)
            continue
        ms = [e for e in p.trace if e.get("short", "").endswith("DiagnosticAction::is_match")]
        nx = [e for e in p.trace if re.search(r"slice::Iter<'_, DiagnosticAction> as Iterator>::next$", e["callee"])]
        somes = [e for e in nx if mc.implied_eq(p, ex.discriminant(p.state, e["result"]).term, 1)]
        ended = any(mc.implied_eq(p, ex.discriminant(p.state, e["result"]).term, 0) for e in nx)
        want = z3.Or([e["result"].term for e in ms]) if ms else z3.BoolVal(False)
        r, m = mc.check(list(p.pc) + [p.ret.term != want], "any")
        n += 1
        if r == "sat":
            fails.append("result differs from 'some asked action matches'")
        # every yielded action must have been asked unless an earlier one already matched
        if len(ms) != len(somes):
            fails.append("%d actions yielded but %d asked" % (len(somes), len(ms)))
        # returning false is only allowed after the list is exhausted (or the file has no actions)
        r2, _ = mc.check(list(p.pc) + [z3.Not(p.ret.term)], "false")
        if r2 == "sat" and nx and not ended:
            fails.append("returns false before all actions of the file were examined")
        for e in ms:
            if e["akeys"][1] != "b:true":
                fails.append("is_match asked with is_disable != true")
            if e["akeys"][2] != "&" + mflow.KeyB.arg(4).opq() or e["akeys"][3] != "&" + mflow.KeyB.arg(3).opq():
                fails.append("is_match asked about a different range/code than the diagnostic's")
    ob.witness = n > 0
    if fails:
        ob.status = "pending"
        ob.detail = "; ".join(sorted(set(fails)))
        results.append((ob, fails, None, "lookup", "any"))
    else:
        ob.status = "pass"


# ---------------------------------------------------------------------------------------------
# native replay: build a Lua file from the counterexample geometry and diagnose it

def scenario_from_geo(role, geo, kind):
    """turn line-table geometry into a program: unused-local diagnostics at chosen positions"""
    return None


BATTERY = []


def _prog(lines):
    return "\n".join(lines)


def _mk_battery():
    UG = "undefined-global"
    b = []

    def add(bid, text, expect_lines_reported, expect_lines_suppressed, descr, code=UG):
        b.append((bid, {"kind": "diagnose", "target": "t.lua", "emmyrc": {"diagnostics": {}}, "files": [{"name": "t.lua", "text": text}]},
                  expect_lines_reported, expect_lines_suppressed, descr, code))

    add("next_line_basic", "---@diagnostic disable-next-line: undefined-global\naa()\nbb()\n", [2], [1], "disable-next-line covers the next line only (indented/col>0 irrelevant)")
    add("next_line_col0_two_below", "---@diagnostic disable-next-line: undefined-global\naa()\nbb()", [2], [1], "a diagnostic at column 0 two lines below is still reported")
    add("next_line_last_line_no_newline", "local x = 1\n---@diagnostic disable-next-line: undefined-global\naa()", [], [2], "the suppressed line may be the last line without a trailing newline")
    add("disable_line_last_line_no_newline", "local x = 1\naa() ---@diagnostic disable-line: undefined-global", [], [1], "disable-line on the last line without a trailing newline")
    add("disable_line_other_lines", "aa()\nbb() ---@diagnostic disable-line: undefined-global\ncc()\n", [0, 2], [1], "disable-line covers only its own line")
    add("unknown_code_suppresses_nothing", "---@diagnostic disable-next-line: undefined_globalz\naa()\n", [1], [], "a list of unknown code names suppresses nothing")
    add("unknown_code_block", "do\n---@diagnostic disable: not-a-code\naa()\nend\n", [2], [], "disable with only unknown names in a block suppresses nothing")
    add("other_code_not_suppressed", "---@diagnostic disable-next-line: unused\naa()\n", [1], [], "another code stays reported")
    add("block_scope", "do\n---@diagnostic disable: undefined-global\naa()\nend\nbb()\n", [4], [2], "disable in a nested block ends with the block")
    add("block_after_line_comment", "do\naa()\n---@diagnostic disable-next-line: unused\nlocal _u = 1\n---@diagnostic disable: undefined-global\nend\n", [], [1],
        "a block-wide disable placed after a line-scoped comment still covers earlier diagnostics of the block")
    add("next_line_multiline_comment", "---@diagnostic disable-next-line: undefined-global\n---@type any\nlocal v = aa()\nbb()\n", [3], [2],
        "the next line is the line after the whole comment, also when more comment lines follow the tag")
    add("next_line_tag_in_the_middle", "--- some text\n---@diagnostic disable-next-line: undefined-global\n--- more text\naa()\nbb()\n", [4], [3],
        "a tag in the middle of a multi-line comment still covers the line after the comment")
    add("disable_line_multiline_comment", "aa() ---@diagnostic disable-line: undefined-global\nbb()\n", [1], [0], "disable-line behind code on the first line")
    add("no_list_suppresses_all_next_line", "---@diagnostic disable-next-line\naa()\nbb()\n", [2], [1], "no code list: every code on the next line")
    return b


def replay(out, results):
    if not results:
        return
    bat = _mk_battery()
    runs = []
    hit = None
    for bid, sc, rep, sup, descr, code in bat:
        res = mflow.native_replay(sc)
        if "error" in res:
            runs.append({"id": bid, "error": res["error"]})
            continue
        lines = sorted({d["start"][0] for d in res.get("diagnostics", []) if d["code"] == code})
        bad = [l for l in rep if l not in lines] + [l for l in sup if l in lines]
        runs.append({"id": bid, "reported_lines": lines, "violates": bool(bad)})
        if bad and hit is None:
            hit = (bid, sc, res, descr, lines)
    for ob, fails, cex, role, clause in results:
        if hit is None:
            ob.status = "inconclusive"
            ob.detail = ("solver counterexample (%s) but none of the %d native scenarios shows a violation" %
                         ("; ".join(sorted(set(fails)))[:300], len(bat)))
            ob.extra["battery"] = runs
            continue
        bid, sc, res, descr, lines = hit
        rec = {"property": out.prop, "role": role, "clause": clause, "solver_findings": sorted(set(fails))[:6], "solver_counterexample": cex,
               "scenario": sc, "native": {"reported_lines": lines}, "violates": True, "why": descr, "battery": runs}
        path = mflow.write_replay(out, "%s_%s_%s" % (role, clause, bid), rec)
        ob.counterexamples = [{"geometry": cex, "native_scenario": bid, "replay": path}]
        # a finding is keyed by role + clause + the FIRST failing native scenario
        kf = match_known(out.prop, role, clause, {"scenario": bid})
        if kf:
            ob.status = "known"
            out.known("%s [%s/%s: %s]" % (kf["what"], role, clause, bid))
        else:
            ob.status = "violation"
            ob.detail = "%s — confirmed natively by scenario %s (%s)" % ("; ".join(sorted(set(fails)))[:300], bid, descr)
            out.violation(path, "(%s/%s: %s)" % (role, clause, descr))


def run(out):
    out.functions = ["analyze_diagnostic_disable_next_line", "analyze_diagnostic_disable_line", "analyze_diagnostic_disable",
                     "DiagnosticAction::is_match", "DiagnosticAction::new", "DiagnosticIndex::is_file_diagnostic_code_disabled"]
    out.bounds = {"document": "%d lines with symbolic starts and text length (< 2^20)" % NL,
                  "ranges": "comment, enclosing block and single-line diagnostic ranges fully symbolic (u32)",
                  "codes": "listed codes and the diagnostic's code symbolic; code lists of <= 2 names (loop unrolled)"}
    out.outside = ["how the parser attaches the comment node / which block it calls the owner", "unknown code NAMES (string -> code parsing is a free Result)",
                   "multi-line diagnostics (only diagnostics lying on one line are judged)", "the empty diagnostic range at the very end of the text",
                   "documents with more than %d lines (the clauses are per-line-relative, so this only bounds distances)" % NL]
    out.assumptions = [
        "contracts (K lemmas, see C22/C21 evidence): LuaDocument::get_line(o) = index of the last line start <= o; get_line_range(i) = [start_i, start_{i+1}) or [start_i, len) for a non-empty last line, else None; get_offset(i, 0) = start_i",
        "contract: rowan TextRange::intersect(a,b) = Some([max starts, min ends]) iff max <= min; contains(o) = start <= o < end; is_empty = start == end",
        "a comment's range does not end at a line start; the owner block contains the comment; the document of the file exists",
        "<&DiagnosticCode as PartialEq>::eq is equality of codes",
    ]
    mc = mflow.MContext(out)
    results = []
    try:
        fns, enums, U = glue(out, mc, results)
        any_action(out, mc, results, fns, enums)
    except (symex.Unsupported, RuntimeError, KeyError, ValueError, IndexError, AttributeError) as e:
        import traceback
        out.fatal = "engine M could not encode the current source: %r\n%s" % (e, traceback.format_exc()[-1500:])
    replay(out, results)
    mc.finish()
