"""Kernels of the parser that carry losslessness (C01) and crash-freedom (C02):
Reader (engine K) and LuaGreenNodeBuilder / token-trivia emission (engine M with exact Vec models)."""
import itertools
import re
import time

import z3

import mflow
import srcinfo
import symex
import vecmodel
import shapes as S
from core import Obligation
from kflow import HDef, run_k
from symex import Agg, BV, Opaque, Ref
from vecmodel import VecV, usize

PS = "/repo/crates/emmylua_parser/src"


# ---------------------------------------------------------------------------------------------
# K: Reader

def reader_hdefs(tier):
    hs = []
    shp = S.shapes(3, widths=(1, 2, 4)) if tier == "quick" else S.shapes(4, widths=(1, 2, 3, 4))
    for s in shp:
        if not s:
            continue
        L, K, n, arr = S.byte_len(s), len(s), S.name(s), S.rust_array(s)
        uw = max(L, K) + 4
        hs.append(HDef("c01_reader_" + n, "reader_covers_text",
                       "#[kani::proof] #[kani::unwind(%d)] pub fn c01_reader_%s() { reader_covers_text::<%d, %d>(%s) }" % (uw, n, L, K, arr),
                       "Reader over every text of this shape (1-byte chars symbolic over LF | NUL | other) and every sequence of <= k+1 bump()/reset_buff(): "
                       "ranges inside the text on char boundaries, current+tail tile the rest, is_eof <=> all consumed, bump makes progress",
                       {"shape": list(s), "bytes": L, "ops": K + 1, "unwind": uw}, {"has_multibyte": any(w > 1 for w in s)},
                       ["emmylua_parser::Reader::new", "Reader::bump", "Reader::reset_buff", "Reader::is_eof", "Reader::current_range", "Reader::tail_range"]))
    return hs


def run_reader(out):
    hs = reader_hdefs(out.tier)
    run_k(out, "c01", "parser", hs, jobs=14, harness_timeout=900, overall_timeout=1800 if out.tier == "quick" else 4 * 3600, mem_gb=12)


# ---------------------------------------------------------------------------------------------
# M: LuaGreenNodeBuilder

def patterns(max_ops, balanced):
    out = []
    for n in range(1, max_ops + 1):
        for ops in itertools.product("STF", repeat=n):
            depth, ok = 0, True
            for o in ops:
                if o == "S":
                    depth += 1
                elif o == "F":
                    depth -= 1
                    if depth < 0:
                        ok = False
            is_bal = ok and depth == 0
            if balanced == is_bal:
                out.append("".join(ops))
    return out


class BuilderRig:
    def __init__(self, mc):
        self.fns = mc.fns("emmylua_parser", r"lua_green_builder::<impl[^>]*>::")
        self.fields = srcinfo.struct_fields(PS + "/syntax/tree/lua_green_builder.rs", "LuaGreenNodeBuilder")
        self.elem = srcinfo.enum_variants(PS + "/syntax/tree/lua_green_builder.rs", "LuaGreenElement")
        self.syn = srcinfo.enum_variants(PS + "/kind/lua_syntax_kind.rs", "LuaSyntaxKind")
        self.fn = {}
        for name in ("token", "start_node", "finish_node"):
            c = [f for f in self.fns if re.search(r"lua_green_builder::<impl[^>]*>::%s$" % name, f.name)]
            if len(c) != 1:
                raise RuntimeError("builder fn %s: %d candidates" % (name, len(c)))
            self.fn[name] = c[0]
        self.solver_time = 0.0
        self.queries = 0

    def executor(self):
        ex = symex.Executor(self.fns, enums={"LuaGreenElement": self.elem}, max_visits=24, max_paths=20000)
        vecmodel.install(ex)
        ex.inline = [r"LuaGreenNodeBuilder::<'_>::(is_trivia|is_trivia_whitespace)$"]
        return ex

    def run_pattern(self, pat):
        """returns (final_states, problems, n_paths)"""
        ex = self.executor()
        st0 = symex.State()
        names = list(self.fields)
        vals = []
        for f in names:
            vals.append(VecV([]) if f in ("parents", "children", "elements") else Opaque("GreenNodeBuilder", ("rowan",)))
        cell = st0.new_cell(Agg("LuaGreenNodeBuilder", None, vals, names))
        bref = Ref(("heap", cell), (), True)
        chunk = BV(z3.BitVecVal(self.syn.index("Chunk"), 16))
        seq = [("S", chunk)]
        t = 0
        for i, o in enumerate(pat):
            if o == "S":
                seq.append(("S", BV(z3.BitVec("nk%d" % i, 16))))
            elif o == "T":
                seq.append(("T", BV(z3.BitVec("tk%d" % i, 16)), t))
                t += 1
            else:
                seq.append(("F",))
        seq.append(("F",))
        states = [st0]
        problems = []
        npaths = 0
        for op in seq:
            nxt = []
            for st in states:
                s2 = st.fork()
                if op[0] == "S":
                    paths = ex.run(self.fn["start_node"], [bref, op[1]], s2)
                elif op[0] == "T":
                    rng = Agg("SourceRange", None, [usize(op[2]), usize(1)], ["start_offset", "length"])
                    paths = ex.run(self.fn["token"], [bref, op[1], rng], s2)
                else:
                    paths = ex.run(self.fn["finish_node"], [bref], s2)
                for p in paths:
                    npaths += 1
                    for (what, cond, where, npc) in p.state.obligations:
                        if z3.is_false(z3.simplify(cond)):
                            problems.append("%s fails in %s" % (what, where.split("::")[-1]))
                    p.state.obligations = []
                    if p.kind == "return":
                        nxt.append(p.state)
                    elif p.kind == "cut":
                        problems.append("loop bound reached in %s (non-termination?)" % p.info[-60:])
                    else:
                        problems.append("%s: %s" % (p.kind, p.info[:100]))
            states = nxt
        self.solver_time += ex.solver_time
        self.queries += ex.queries
        return states, problems, npaths, t, (ex, cell)

    def leaves(self, ex, st, cell):
        b = st.heap[cell]
        f = dict(zip(b.names, b.fields))
        children, elements = f["children"], f["elements"]
        out = []
        if not children.items:
            return 0, out
        stack = [children.items[0]]
        guard = 0
        while stack and guard < 1000:
            guard += 1
            idx = vecmodel.conc(stack.pop())
            e = elements.items[idx]
            if isinstance(e, Agg) and e.variant == "Node":
                ch = e.fields[e.names.index("children")] if e.names else e.fields[1]
                for c in reversed(ch.items):
                    stack.append(c)
            elif isinstance(e, Agg) and e.variant == "Token":
                rng = e.fields[e.names.index("range")] if e.names else e.fields[1]
                out.append(vecmodel.conc(rng.fields[0]))
        return len(children.items), out


def builder_obligations(out, mc, want_lossless, max_ops):
    """adds one obligation per pattern class; returns list of (ob, fails)"""
    rig = BuilderRig(mc)
    res = []
    groups = [("balanced", True)] if want_lossless else [("balanced", True), ("unbalanced", False)]
    for gname, bal in groups:
        pats = patterns(max_ops, bal)
        if want_lossless:
            # pre-state invariant supplied by the grammar (outside this check): a node is never finished before the
            # first token of the file has been pushed (parse_chunk calls init(), which emits leading trivia, right after
            # opening the root Block, and every other node eats a token before it completes at file start)
            pats = [p for p in pats if "F" not in p or "T" in p[:p.index("F")]]
        if want_lossless:
            text = ("for every balanced sequence of <= %d start_node/token/finish_node operations inside the Chunk wrapper and ALL node and token kinds, the element tree "
                    "handed to rowan has one root and its depth-first leaves are exactly the pushed tokens in push order" % max_ops)
            oid = "builder/keeps_every_token_in_order"
        else:
            text = ("for every %s sequence of <= %d builder operations and ALL kinds: no index / drain / insert out of range, no loop runs past its bound" % (gname, max_ops))
            oid = "builder/no_panic_%s" % gname
        ob = out.add(Obligation(oid, "M", text, {"functions": "LuaGreenNodeBuilder::{token,start_node,finish_node,is_trivia,is_trivia_whitespace}",
                                                "patterns": len(pats), "ops": "<= %d" % max_ops, "kinds": "symbolic u16 per node / token"},
                                [f.name for f in rig.fn.values()]))
        fails = []
        npaths = 0
        t0 = time.time()
        sample = None
        for pat in pats:
            try:
                states, problems, n, ntok, (ex, cell) = rig.run_pattern(pat)
            except symex.Unsupported as e:
                fails.append("pattern %s: encoding gap: %s" % (pat, str(e)[:120]))
                continue
            npaths += n
            for pr in problems:
                fails.append("pattern %s: %s" % (pat, pr))
            if want_lossless:
                for st in states:
                    nroot, lv = rig.leaves(ex, st, cell)
                    if ntok > 0 and nroot != 1:
                        fails.append("pattern %s: %d top-level entries remain (finish() only emits the first)" % (pat, nroot))
                    if lv != list(range(ntok)):
                        fails.append("pattern %s: tree leaves %s != pushed tokens %s" % (pat, lv, list(range(ntok))))
                        if sample is None:
                            m = witness(st)
                            sample = {"pattern": pat, "leaves": lv, "kinds": m}
        ob.witness = npaths > 0
        ob.solver_s = rig.solver_time
        ob.extra = {"patterns": len(pats), "paths": npaths, "seconds": round(time.time() - t0, 1), "feasibility_queries": rig.queries}
        if sample:
            ob.extra["counterexample"] = sample
        if fails:
            ob.status = "pending"
            ob.detail = "; ".join(sorted(set(fails))[:6])[:700]
            res.append((ob, fails, sample))
        else:
            ob.status = "pass"
    return res


def witness(st):
    s = z3.Solver()
    for c in st.pc:
        s.add(c)
    if s.check() == z3.sat:
        m = s.model()
        return {d.name(): m[d].as_long() for d in m.decls() if d.name().startswith(("nk", "tk"))}
    return {}
