"""Kernels of the parser that carry losslessness (C01) and crash-freedom (C02):
Reader (engine K) and LuaGreenNodeBuilder / token-trivia emission (engine M with exact Vec models)."""
import itertools
import re
import time

import z3

import mflow
import srcinfo
import symex
import vecmodel
import shapes as S
from core import Obligation
from kflow import HDef, run_k
from symex import Agg, BV, Opaque, Ref
from vecmodel import VecV, usize

PS = "/repo/crates/emmylua_parser/src"


# ---------------------------------------------------------------------------------------------
# K: Reader

def reader_hdefs(tier):
    hs = []
    shp = S.shapes(3, widths=(1, 2, 4)) if tier == "quick" else S.shapes(4, widths=(1, 2, 3, 4))
    for s in shp:
        if not s:
            continue
        L, K, n, arr = S.byte_len(s), len(s), S.name(s), S.rust_array(s)
        uw = max(L, K) + 4
        hs.append(HDef("c01_reader_" + n, "reader_covers_text",
                       "#[kani::proof] #[kani::unwind(%d)] pub fn c01_reader_%s() { reader_covers_text::<%d, %d>(%s) }" % (uw, n, L, K, arr),
                       "Reader over every text of this shape (1-byte chars symbolic over LF | NUL | other) and every sequence of <= k+1 bump()/reset_buff(): "
                       "ranges inside the text on char boundaries, current+tail tile the rest, is_eof <=> all consumed, bump makes progress",
                       {"shape": list(s), "bytes": L, "ops": K + 1, "unwind": uw}, {"has_multibyte": any(w > 1 for w in s)},
                       ["emmylua_parser::Reader::new", "Reader::bump", "Reader::reset_buff", "Reader::is_eof", "Reader::current_range", "Reader::tail_range"]))
    return hs


def run_reader(out):
    hs = reader_hdefs(out.tier)
    run_k(out, "c01", "parser", hs, jobs=14, harness_timeout=900, overall_timeout=3600 if out.tier == "quick" else 4 * 3600, mem_gb=12)


# ---------------------------------------------------------------------------------------------
# M: LuaGreenNodeBuilder

def patterns(max_ops, balanced):
    out = []
    for n in range(1, max_ops + 1):
        for ops in itertools.product("STF", repeat=n):
            depth, ok = 0, True
            for o in ops:
                if o == "S":
                    depth += 1
                elif o == "F":
                    depth -= 1
                    if depth < 0:
                        ok = False
            is_bal = ok and depth == 0
            if balanced == is_bal:
                out.append("".join(ops))
    return out


class BuilderRig:
    def __init__(self, mc):
        self.fns = mc.fns("emmylua_parser", r"lua_green_builder::<impl[^>]*>::")
        self.fields = srcinfo.struct_fields(PS + "/syntax/tree/lua_green_builder.rs", "LuaGreenNodeBuilder")
        self.elem = srcinfo.enum_variants(PS + "/syntax/tree/lua_green_builder.rs", "LuaGreenElement")
        self.syn = srcinfo.enum_variants(PS + "/kind/lua_syntax_kind.rs", "LuaSyntaxKind")
        self.fn = {}
        for name in ("token", "start_node", "finish_node"):
            c = [f for f in self.fns if re.search(r"lua_green_builder::<impl[^>]*>::%s$" % name, f.name)]
            if len(c) != 1:
                raise RuntimeError("builder fn %s: %d candidates" % (name, len(c)))
            self.fn[name] = c[0]
        self.solver_time = 0.0
        self.queries = 0
        # the real driver of the builder: LuaTreeBuilder::build (Chunk wrapper, event -> builder call mapping, parent chains)
        self.tb_fns = mc.fns("emmylua_parser", r"lua_tree_builder::<impl[^>]*>::(build|token|start_node|finish_node)\(|lua_green_builder::<impl[^>]*>::|marker::<impl[^>]*>::none\(")
        self.tb_fields = srcinfo.struct_fields(PS + "/syntax/tree/lua_tree_builder.rs", "LuaTreeBuilder")
        self.mark = srcinfo.enum_variants(PS + "/parser/marker.rs", "MarkEvent")
        self.tok = srcinfo.enum_variants(PS + "/kind/lua_token_kind.rs", "LuaTokenKind")
        c = [f for f in self.tb_fns if re.search(r"lua_tree_builder::<impl[^>]*>::build$", f.name)]
        if len(c) != 1:
            raise RuntimeError("LuaTreeBuilder::build: %d candidates" % len(c))
        self.fn["build"] = c[0]

    def executor(self):
        ex = symex.Executor(self.tb_fns, enums={"LuaGreenElement": self.elem, "MarkEvent": self.mark, "LuaSyntaxKind": self.syn}, max_visits=40, max_paths=40000)
        vecmodel.install(ex)
        ex.inline = [r"LuaGreenNodeBuilder::<'_>::(is_trivia|is_trivia_whitespace|token|start_node|finish_node)$",
                     r"LuaTreeBuilder::<'_>::(token|start_node|finish_node)$", r"MarkEvent::none$"]
        return ex

    def run_pattern(self, pat, nontrivia_after_leading_empty=False, root_block=True):
        """drive LuaTreeBuilder::build over the event vector of `pat`; returns (final_states, problems, n_paths, n_tokens, (ex, cell))"""
        ex = self.executor()
        st0 = symex.State()
        events = []
        t = 0
        seen_token = False
        leading_empty = False
        for i, o in enumerate(pat):
            if o == "S":
                k = z3.BitVec("nk%d" % i, 16)
                st0.pc.append(k != self.syn.index("None"))      # kind None marks a cancelled node: not a node start
                if i == 0 and root_block:
                    st0.pc.append(k == self.syn.index("Block"))  # parse_chunk opens the root Block before anything else
                else:
                    # grammar shape G1: a nested Block directly follows the keyword token that introduces it (do/then/else/function(..)/...),
                    # it is never the first child of its parent and never preceded only by trivia
                    blk = z3.Or(k == self.syn.index("Block"), k == self.syn.index("Chunk"))
                    if i > 0 and pat[i - 1] == "T":
                        prev = z3.BitVec("tk%d" % (i - 1), 16)
                        st0.pc.append(z3.Implies(blk, z3.And([prev != self.tok.index(nm) for nm in ("TkWhitespace", "TkEndOfLine", "TkDocContinue")])))
                    else:
                        st0.pc.append(z3.Not(blk))
                events.append(Agg("MarkEvent", "NodeStart", [BV(k), usize(0)], ["kind", "parent"]))
            elif o == "T":
                k = z3.BitVec("tk%d" % i, 16)
                if leading_empty and nontrivia_after_leading_empty and not seen_token:
                    for nm in ("TkWhitespace", "TkEndOfLine", "TkDocContinue"):
                        st0.pc.append(k != self.tok.index(nm))
                seen_token = True
                rng = Agg("SourceRange", None, [usize(t), usize(1)], ["start_offset", "length"])
                events.append(Agg("MarkEvent", "EatToken", [BV(k), rng], ["kind", "range"]))
                t += 1
            else:
                if not seen_token:
                    leading_empty = True
                events.append(Agg("MarkEvent", "NodeEnd", []))
        gb_vals = [VecV([]) if f in ("parents", "children", "elements") else Opaque("GreenNodeBuilder", ("rowan",)) for f in self.fields]
        gb = Agg("LuaGreenNodeBuilder", None, gb_vals, list(self.fields))
        tb_vals = []
        for f in self.tb_fields:
            if f == "events":
                tb_vals.append(VecV(events))
            elif f == "green_builder":
                tb_vals.append(gb)
            else:
                tb_vals.append(Opaque(f, (f,)))
        cell = st0.new_cell(Agg("LuaTreeBuilder", None, tb_vals, list(self.tb_fields)))
        tref = Ref(("heap", cell), (), True)
        problems = []
        states = []
        npaths = 0
        for p in ex.run(self.fn["build"], [tref], st0):
            npaths += 1
            for (what, cond, where, npc) in p.state.obligations:
                if z3.is_false(z3.simplify(cond)):
                    problems.append("%s fails in %s" % (what, where.split("::")[-1]))
            p.state.obligations = []
            if p.kind == "return":
                states.append(p.state)
            elif p.kind == "cut":
                problems.append("loop bound reached in %s (non-termination?)" % p.info[-60:])
            else:
                problems.append("%s: %s" % (p.kind, p.info[:100]))
        self.solver_time += ex.solver_time
        self.queries += ex.queries
        return states, problems, npaths, t, (ex, cell)

    def leaves(self, ex, st, cell):
        tb = st.heap[cell]
        b = dict(zip(tb.names, tb.fields))["green_builder"]
        f = dict(zip(b.names, b.fields))
        children, elements = f["children"], f["elements"]
        out = []
        if not children.items:
            return 0, out
        stack = [children.items[0]]
        guard = 0
        while stack and guard < 1000:
            guard += 1
            idx = vecmodel.conc(stack.pop())
            e = elements.items[idx]
            if isinstance(e, Agg) and e.variant == "Node":
                ch = e.fields[e.names.index("children")] if e.names else e.fields[1]
                for c in reversed(ch.items):
                    stack.append(c)
            elif isinstance(e, Agg) and e.variant == "Token":
                rng = e.fields[e.names.index("range")] if e.names else e.fields[1]
                out.append(vecmodel.conc(rng.fields[0]))
        return len(children.items), out


def builder_obligations(out, mc, want_lossless, max_ops):
    """adds one obligation per pattern class; returns list of (ob, fails)"""
    rig = BuilderRig(mc)
    res = []
    groups = [("balanced", True)] if want_lossless else [("balanced", True), ("unbalanced", False)]
    for gname, bal in groups:
        # every real event stream is  NodeStart(Block) <inner> NodeEnd : parse_chunk marks the root Block first and completes it last
        inner = [""] + patterns(max_ops, True) + ([] if bal else patterns(max_ops, False))
        pats = ["S" + p + "F" for p in inner] if bal else ["S" + p + "F" for p in patterns(max_ops, False)] + patterns(max_ops, False)
        if want_lossless:
            # grammar shape G2: before the first token of the file has been eaten, error recovery closes at most ONE open node
            # (the statement node that met the unexpected token).  The builder ignores a NodeEnd while it holds no children, so
            # two such closes would leave two stale parents; streams with that shape are outside the claim.
            def early_closes(p):
                i = p.find("T")
                return (p if i < 0 else p[:i]).count("F")
            pats = [p for p in pats if early_closes(p[1:]) <= 1 or "T" not in p]
        if want_lossless:
            text = ("for every balanced sequence of <= %d NodeStart/EatToken/NodeEnd events run through the real LuaTreeBuilder::build and ALL node and token kinds, the element tree "
                    "handed to rowan has one root and its depth-first leaves are exactly the eaten tokens in order (where a node is closed before any token was eaten — "
                    "recovery does that — the first token after it is not whitespace/EOL, as it is the unexpected token itself)" % max_ops)
            oid = "builder/keeps_every_token_in_order"
        else:
            text = ("for every %s sequence of <= %d events run through LuaTreeBuilder::build and ALL kinds: no index / drain / insert out of range, no loop runs past its bound, "
                    "`unreachable!()` not reached" % (gname, max_ops))
            oid = "builder/no_panic_%s" % gname
        ob = out.add(Obligation(oid, "M", text, {"functions": "LuaTreeBuilder::build + LuaGreenNodeBuilder::{token,start_node,finish_node,is_trivia,is_trivia_whitespace}",
                                                "patterns": len(pats), "ops": "<= %d" % max_ops, "kinds": "symbolic u16 per node / token"},
                                [f.name for f in rig.fn.values()]))
        fails = []
        npaths = 0
        t0 = time.time()
        sample = None
        for pat in pats:
            try:
                states, problems, n, ntok, (ex, cell) = rig.run_pattern(pat, nontrivia_after_leading_empty=want_lossless, root_block=pat.startswith("S") and pat.endswith("F"))
            except symex.Unsupported as e:
                fails.append("pattern %s: encoding gap: %s" % (pat, str(e)[:120]))
                continue
            npaths += n
            for pr in problems:
                fails.append("pattern %s: %s" % (pat, pr))
            if want_lossless:
                for st in states:
                    nroot, lv = rig.leaves(ex, st, cell)
                    if ntok > 0 and nroot != 1:
                        fails.append("pattern %s: %d top-level entries remain (finish() only emits the first)" % (pat, nroot))
                    if lv != list(range(ntok)):
                        fails.append("pattern %s: tree leaves %s != pushed tokens %s" % (pat, lv, list(range(ntok))))
                        if sample is None:
                            m = witness(st)
                            sample = {"pattern": pat, "leaves": lv, "kinds": m}
        ob.witness = npaths > 0
        ob.solver_s = rig.solver_time
        ob.extra = {"patterns": len(pats), "paths": npaths, "seconds": round(time.time() - t0, 1), "feasibility_queries": rig.queries}
        if sample:
            ob.extra["counterexample"] = sample
        if fails:
            ob.status = "pending"
            ob.detail = "; ".join(sorted(set(fails))[:6])[:700]
            res.append((ob, fails, sample))
        else:
            ob.status = "pass"
    return res


def witness(st):
    s = z3.Solver()
    for c in st.pc:
        s.add(c)
    if s.check() == z3.sat:
        m = s.model()
        return {d.name(): m[d].as_long() for d in m.decls() if d.name().startswith(("nk", "tk"))}
    return {}


# ---------------------------------------------------------------------------------------------
# M: LuaParser::init / bump / skip_trivia / parse_trivia_tokens / parse_comments (doc parsing off)

TRIVIA = ["TkShortComment", "TkLongComment", "TkEndOfLine", "TkWhitespace", "TkShebang"]


class ParserRig:
    def __init__(self, mc):
        want = (r"lua_parser::<impl[^>]*>::(init|bump|skip_trivia|parse_trivia_tokens|parse_comments|peek_next_token|peek_nth_token|previous_token_range|current_token_range)\(|"
                r"^fn is_trivia_kind|^fn lua_parser::is_invalid_kind|^fn is_invalid_kind|^fn lua_parser::is_trivia_kind")
        self.fns = mc.fns("emmylua_parser", want)
        self.fields = srcinfo.struct_fields(PS + "/parser/lua_parser.rs", "LuaParser")
        self.tok = srcinfo.enum_variants(PS + "/kind/lua_token_kind.rs", "LuaTokenKind")
        self.mark = srcinfo.enum_variants(PS + "/parser/marker.rs", "MarkEvent")
        self.fn = {}
        for name in ("init", "bump", "peek_next_token", "peek_nth_token", "previous_token_range", "current_token_range"):
            c = [f for f in self.fns if re.search(r"lua_parser::<impl[^>]*>::%s$" % name, f.name)]
            if len(c) != 1:
                raise RuntimeError("parser fn %s: %d candidates" % (name, len(c)))
            self.fn[name] = c[0]
        self.queries = 0

    def executor(self):
        ex = symex.Executor(self.fns, enums={"LuaTokenKind": self.tok, "MarkEvent": self.mark}, max_visits=40, max_paths=40000)
        vecmodel.install(ex)
        ex.inline = [r"LuaParser::<'_>::(bump|skip_trivia|parse_trivia_tokens|parse_comments)$", r"^(lua_parser::)?is_trivia_kind$", r"^(lua_parser::)?is_invalid_kind$"]
        ex.models.append((r"ParserConfig::<'_>::support_emmylua_doc$", lambda e, st, c, a, d, f: symex.BoolV(z3.BoolVal(False))))
        return ex

    def fresh_parser(self, st, classes):
        """classes: per token 'T' (trivia, symbolic among the five trivia kinds) or 'X' (any non-trivia, non-eof kind, symbolic)"""
        toks = []
        cons = []
        for i, c in enumerate(classes):
            k = z3.BitVec("kind%d" % i, 16)
            tv = [self.tok.index(n) for n in TRIVIA]
            if c == "T":
                cons.append(z3.Or([k == v for v in tv]))
            else:
                cons.append(z3.And([k != v for v in tv] + [k != self.tok.index("None"), k != self.tok.index("TkEof"), z3.ULT(k, len(self.tok))]))
            rng = Agg("SourceRange", None, [usize(i), usize(1)], ["start_offset", "length"])
            toks.append(Agg("LuaTokenData", None, [BV(k), rng], ["kind", "range"]))
        vals = []
        for f in self.fields:
            if f == "events":
                vals.append(VecV([]))
            elif f == "tokens":
                vals.append(VecV(toks))
            elif f in ("token_index", "mark_level", "ternary_depth", "paren_depth", "ternary_paren_depth"):
                vals.append(usize(0))
            elif f == "current_token":
                vals.append(BV(z3.BitVecVal(self.tok.index("None"), 16)))
            else:
                vals.append(Opaque(f, (f,)))
        st.pc += cons
        cell = st.new_cell(Agg("LuaParser", None, vals, list(self.fields)))
        return cell

    def drive(self, classes):
        ex = self.executor()
        st0 = symex.State()
        cell = self.fresh_parser(st0, classes)
        pref = Ref(("heap", cell), (), True)
        problems = []
        finals = []
        npaths = 0
        states = []
        for p in ex.run(self.fn["init"], [pref], st0):
            npaths += 1
            self.collect(p, problems)
            if p.kind == "return":
                states.append(p.state)
        steps = 0
        while states and steps <= len(classes) + 1:
            nxt = []
            for st in states:
                prs = st.heap[cell]
                f = dict(zip(prs.names, prs.fields))
                ti = vecmodel.conc(f["token_index"])
                if ti is None:
                    problems.append("token_index became symbolic")
                    continue
                if ti >= len(classes):
                    finals.append(st)
                    continue
                for p in ex.run(self.fn["bump"], [pref], st.fork()):
                    npaths += 1
                    self.collect(p, problems)
                    if p.kind == "return":
                        nxt.append(p.state)
            states = nxt
            steps += 1
        if states:
            problems.append("bump() does not reach the end of the token vector within %d calls" % (len(classes) + 2))
        self.queries += ex.queries
        return finals, problems, npaths, cell, ex

    def collect(self, p, problems):
        for (what, cond, where, npc) in p.state.obligations:
            if z3.is_false(z3.simplify(cond)):
                problems.append("%s fails in %s" % (what, where.split("::")[-1]))
        p.state.obligations = []
        if p.kind == "cut":
            problems.append("loop bound reached: %s" % p.info[-70:])
        elif p.kind not in ("return",):
            problems.append("%s: %s" % (p.kind, p.info[:100]))

    def eaten(self, st, cell):
        prs = st.heap[cell]
        f = dict(zip(prs.names, prs.fields))
        out = []
        for e in f["events"].items:
            if isinstance(e, Agg) and e.variant == "EatToken":
                rng = e.fields[e.names.index("range")] if e.names else e.fields[1]
                out.append(vecmodel.conc(rng.fields[0]))
        return out


def parser_obligations(out, mc, want_lossless, max_tokens):
    rig = ParserRig(mc)
    shapes_ = []
    for n in range(0, max_tokens + 1):
        for cl in itertools.product("TX", repeat=n):
            shapes_.append("".join(cl))
    if want_lossless:
        ob = out.add(Obligation("bump/every_token_eaten_once_in_order", "M",
                                "for every token vector of <= %d tokens (each symbolic: one of the five trivia kinds, or any other kind) with doc parsing off, init() followed by bump() "
                                "until the end emits exactly one EatToken event per token, in order" % max_tokens,
                                {"functions": "LuaParser::{init,bump,skip_trivia,parse_trivia_tokens,parse_comments}", "token_vectors": len(shapes_), "kinds": "symbolic per token"},
                                [f.name for f in rig.fn.values()]))
    else:
        ob = out.add(Obligation("bump/no_panic_and_terminates", "M",
                                "for every token vector of <= %d symbolic tokens: init()/bump() never index out of range and reach the end within len+1 calls; "
                                "peek_next_token, peek_nth_token(n<=2), previous_token_range, current_token_range never index out of range at any position" % max_tokens,
                                {"functions": "LuaParser::{init,bump,skip_trivia,parse_trivia_tokens,parse_comments,peek_*,previous_token_range,current_token_range}",
                                 "token_vectors": len(shapes_)}, [f.name for f in rig.fn.values()]))
    fails = []
    npaths = 0
    sample = None
    t0 = time.time()
    for cl in shapes_:
        try:
            finals, problems, n, cell, ex = rig.drive(cl)
        except symex.Unsupported as e:
            fails.append("tokens %s: encoding gap: %s" % (cl or "<empty>", str(e)[:140]))
            continue
        npaths += n
        for pr in problems:
            fails.append("tokens %s: %s" % (cl or "<empty>", pr))
        if want_lossless:
            for st in finals:
                ev = rig.eaten(st, cell)
                if ev != list(range(len(cl))):
                    fails.append("tokens %s: EatToken events %s != tokens %s" % (cl, ev, list(range(len(cl)))))
                    if sample is None:
                        sample = {"classes": cl, "events": ev, "kinds": witness_kinds(st)}
        else:
            # the read-only accessors at every reachable parser state
            for st in finals[:4]:
                for name, extra in (("peek_next_token", []), ("peek_nth_token", [usize(0)]), ("peek_nth_token", [usize(2)]), ("previous_token_range", []), ("current_token_range", [])):
                    pref = Ref(("heap", cell), (), False)
                    for p in ex.run(rig.fn[name], [pref] + extra, st.fork()):
                        npaths += 1
                        pr2 = []
                        rig.collect(p, pr2)
                        for x in pr2:
                            fails.append("tokens %s, %s: %s" % (cl or "<empty>", name, x))
    ob.witness = npaths > 0
    ob.extra = {"token_vectors": len(shapes_), "paths": npaths, "seconds": round(time.time() - t0, 1), "feasibility_queries": rig.queries}
    if sample:
        ob.extra["counterexample"] = sample
    if fails:
        ob.status = "pending"
        ob.detail = "; ".join(sorted(set(fails))[:6])[:700]
        return [(ob, fails, sample)]
    ob.status = "pass"
    return []


def witness_kinds(st):
    s = z3.Solver()
    for c in st.pc:
        s.add(c)
    if s.check() == z3.sat:
        m = s.model()
        return {d.name(): m[d].as_long() for d in m.decls() if d.name().startswith("kind")}
    return {}


# ---------------------------------------------------------------------------------------------
# M: Marker / MarkerEventContainer — the open-node counter the error recovery relies on

class MarkerRig:
    def __init__(self, mc):
        want = (r"^fn parser::marker::MarkerEventContainer::(mark|push_node_end)\(|^fn parser::marker::<impl[^>]*>::(new|complete|undo|precede)\(|"
                r"^fn lua_parser::<impl at crates/emmylua_parser/src/parser/lua_parser.rs:3\d:[^>]*>::(get_mark_level|incr_mark_level|decr_mark_level|get_events)\(")
        self.fns = mc.fns("emmylua_parser", want)
        self.fields = srcinfo.struct_fields(PS + "/parser/lua_parser.rs", "LuaParser")
        self.syn = srcinfo.enum_variants(PS + "/kind/lua_syntax_kind.rs", "LuaSyntaxKind")
        self.mark = srcinfo.enum_variants(PS + "/parser/marker.rs", "MarkEvent")

        def one(rx):
            c = [f for f in self.fns if re.search(rx, f.name)]
            if len(c) != 1:
                raise RuntimeError("marker fn %s: %d candidates" % (rx, len(c)))
            return c[0]
        self.f_mark = one(r"MarkerEventContainer::mark$")
        self.f_end = one(r"MarkerEventContainer::push_node_end$")
        self.f_complete = one(r"marker::<impl[^>]*>::complete$")
        self.f_undo = one(r"marker::<impl[^>]*>::undo$")
        self.f_precede = one(r"marker::<impl[^>]*>::precede$")
        self.impl = {n: one(r"lua_parser::<impl[^>]*>::%s$" % n) for n in ("get_mark_level", "incr_mark_level", "decr_mark_level", "get_events")}

    def executor(self):
        ex = symex.Executor(self.fns, enums={"MarkEvent": self.mark, "LuaSyntaxKind": self.syn}, max_visits=8)
        vecmodel.install(ex)
        for n, f in self.impl.items():
            ex.redirect.append((r"as parser::marker::MarkerEventContainer>::%s$|as MarkerEventContainer>::%s$" % (n, n), f))
        ex.redirect.append((r"as parser::marker::MarkerEventContainer>::push_node_end$|as MarkerEventContainer>::push_node_end$", self.f_end))
        ex.redirect.append((r"as parser::marker::MarkerEventContainer>::mark$|as MarkerEventContainer>::mark$", self.f_mark))
        ex.inline = [r"^parser::marker::Marker::new$|^Marker::new$"]
        return ex

    def run(self, ops):
        """ops: string over M (mark), T (token event), C (complete top open marker), U (undo top open marker),
        P (precede the most recently completed marker), E (recovery: push_node_end).  Returns problems list."""
        ex = self.executor()
        st = symex.State()
        vals = []
        for f in self.fields:
            if f == "events":
                vals.append(VecV([]))
            elif f == "mark_level":
                vals.append(usize(0))
            else:
                vals.append(Opaque(f, (f,)))
        cell = st.new_cell(Agg("LuaParser", None, vals, list(self.fields)))
        pref = Ref(("heap", cell), (), True)
        states = [(st, [], None)]      # (state, open marker stack, last completed marker)
        problems = []
        npaths = 0
        for i, op in enumerate(ops):
            nxt = []
            for st, open_, last in states:
                s2 = st.fork()
                if op == "M":
                    kind = BV(z3.BitVec("mk%d" % i, 16))
                    s2.pc.append(kind.term != self.syn.index("None"))
                    paths = ex.run(self.f_mark, [pref, kind], s2)
                    for p in paths:
                        npaths += 1
                        if p.kind == "return":
                            nxt.append((p.state, open_ + [p.ret], last))
                        else:
                            problems.append("%s in mark" % p.kind)
                elif op == "T":
                    prs = s2.heap[cell]
                    f = dict(zip(prs.names, prs.fields))
                    ev = Agg("MarkEvent", "EatToken", [BV(z3.BitVec("ek%d" % i, 16)), Agg("SourceRange", None, [usize(i), usize(1)])], ["kind", "range"])
                    newf = [VecV(f["events"].items + [ev]) if n == "events" else v for n, v in zip(prs.names, prs.fields)]
                    s2.heap[cell] = Agg("LuaParser", None, newf, list(prs.names))
                    nxt.append((s2, open_, last))
                elif op in ("C", "U"):
                    if not open_:
                        nxt.append((s2, open_, last))
                        continue
                    m = open_[-1]
                    paths = ex.run(self.f_complete if op == "C" else self.f_undo, [m, pref], s2)
                    for p in paths:
                        npaths += 1
                        if p.kind == "return":
                            nxt.append((p.state, open_[:-1], p.ret))
                        else:
                            problems.append("%s in %s: %s" % (p.kind, "complete" if op == "C" else "undo", p.info[:80]))
                elif op == "P":
                    if last is None:
                        nxt.append((s2, open_, last))
                        continue
                    cref = Ref(("heap", s2.new_cell(last)), (), False)
                    kind = BV(z3.BitVec("pk%d" % i, 16))
                    s2.pc.append(kind.term != self.syn.index("None"))
                    paths = ex.run(self.f_precede, [cref, pref, kind], s2)
                    for p in paths:
                        npaths += 1
                        if p.kind == "return":
                            nxt.append((p.state, open_ + [p.ret], None))
                        else:
                            problems.append("%s in precede: %s" % (p.kind, p.info[:80]))
                # the invariant the recovery code relies on, after every operation
            for st, open_, last in nxt:
                prs = st.heap[cell]
                f = dict(zip(prs.names, prs.fields))
                level = vecmodel.conc(f["mark_level"])
                starts = ends = 0
                for e in f["events"].items:
                    if isinstance(e, Agg) and e.variant == "NodeStart":
                        k = e.fields[0]
                        is_none = (isinstance(k, Agg) and k.variant == "None") or (isinstance(k, BV) and vecmodel.conc(k) == self.syn.index("None"))
                        if not is_none:
                            starts += 1
                    elif isinstance(e, Agg) and e.variant == "NodeEnd":
                        ends += 1
                if level is None or level != starts - ends:
                    problems.append("after %s: mark_level = %s but %d node(s) are open (%d live NodeStart, %d NodeEnd) — recovery would push %s surplus NodeEnd"
                                    % (ops[:i + 1], level, starts - ends, starts, ends, (level - (starts - ends)) if level is not None else "?"))
            states = nxt
        return problems, npaths


def marker_obligation(out, mc, max_ops):
    rig = MarkerRig(mc)
    seqs = []
    for n in range(1, max_ops + 1):
        for ops in itertools.product("MTCUP", repeat=n):
            s = "".join(ops)
            if s[0] != "M":
                continue
            seqs.append(s)
    ob = out.add(Obligation("marker/mark_level_counts_open_nodes", "M",
                            "after every sequence of <= %d marker operations (mark, token, complete, undo, precede; all kinds symbolic) the parser's mark_level equals the number of "
                            "nodes that are open in the event list (live NodeStart minus NodeEnd) — the number the statement/tag error recovery closes" % max_ops,
                            {"functions": "MarkerEventContainer::{mark,push_node_end}, Marker::{complete,undo}, CompleteMarker::precede, LuaParser's MarkerEventContainer impl",
                             "sequences": len(seqs)}, [f.name for f in rig.fns]))
    fails = []
    npaths = 0
    t0 = time.time()
    for s in seqs:
        try:
            pr, n = rig.run(s)
        except symex.Unsupported as e:
            fails.append("sequence %s: encoding gap: %s" % (s, str(e)[:140]))
            continue
        npaths += n
        fails += pr
    ob.witness = npaths > 0
    ob.extra = {"sequences": len(seqs), "paths": npaths, "seconds": round(time.time() - t0, 1)}
    if fails:
        ob.status = "pending"
        ob.detail = "; ".join(sorted(set(fails), key=lambda x: (len(x), x))[:4])[:800]
        return [(ob, fails, None)]
    ob.status = "pass"
    return []
