"""Kernels of the parser that carry losslessness (C01) and crash-freedom (C02):
Reader (engine K) and LuaGreenNodeBuilder / token-trivia emission (engine M with exact Vec models)."""
import itertools
import re
import time

import z3

import mflow
import srcinfo
import symex
import vecmodel
import shapes as S
from core import Obligation
from kflow import HDef, run_k
from symex import Agg, BV, Opaque, Ref
from vecmodel import VecV, usize

PS = "/repo/crates/emmylua_parser/src"


# ---------------------------------------------------------------------------------------------
# K: Reader

def reader_hdefs(tier):
    hs = []
    shp = S.shapes(3, widths=(1, 2, 4)) if tier == "quick" else S.shapes(4, widths=(1, 2, 3, 4))
    for s in shp:
        if not s:
            continue
        L, K, n, arr = S.byte_len(s), len(s), S.name(s), S.rust_array(s)
        uw = max(L, K) + 4
        hs.append(HDef("c01_reader_" + n, "reader_covers_text",
                       "#[kani::proof] #[kani::unwind(%d)] pub fn c01_reader_%s() { reader_covers_text::<%d, %d>(%s) }" % (uw, n, L, K, arr),
                       "Reader over every text of this shape (1-byte chars symbolic over LF | NUL | other) and every sequence of <= k+1 bump()/reset_buff(): "
                       "ranges inside the text on char boundaries, current+tail tile the rest, is_eof <=> all consumed, bump makes progress",
                       {"shape": list(s), "bytes": L, "ops": K + 1, "unwind": uw}, {"has_multibyte": any(w > 1 for w in s)},
                       ["emmylua_parser::Reader::new", "Reader::bump", "Reader::reset_buff", "Reader::is_eof", "Reader::current_range", "Reader::tail_range"]))
    return hs


def run_reader(out):
    hs = reader_hdefs(out.tier)
    run_k(out, "c01", "parser", hs, jobs=14, harness_timeout=900, overall_timeout=1800 if out.tier == "quick" else 4 * 3600, mem_gb=12)


# ---------------------------------------------------------------------------------------------
# M: LuaGreenNodeBuilder

def patterns(max_ops, balanced):
    out = []
    for n in range(1, max_ops + 1):
        for ops in itertools.product("STF", repeat=n):
            depth, ok = 0, True
            for o in ops:
                if o == "S":
                    depth += 1
                elif o == "F":
                    depth -= 1
                    if depth < 0:
                        ok = False
            is_bal = ok and depth == 0
            if balanced == is_bal:
                out.append("".join(ops))
    return out


class BuilderRig:
    def __init__(self, mc):
        self.fns = mc.fns("emmylua_parser", r"lua_green_builder::<impl[^>]*>::")
        self.fields = srcinfo.struct_fields(PS + "/syntax/tree/lua_green_builder.rs", "LuaGreenNodeBuilder")
        self.elem = srcinfo.enum_variants(PS + "/syntax/tree/lua_green_builder.rs", "LuaGreenElement")
        self.syn = srcinfo.enum_variants(PS + "/kind/lua_syntax_kind.rs", "LuaSyntaxKind")
        self.fn = {}
        for name in ("token", "start_node", "finish_node"):
            c = [f for f in self.fns if re.search(r"lua_green_builder::<impl[^>]*>::%s$" % name, f.name)]
            if len(c) != 1:
                raise RuntimeError("builder fn %s: %d candidates" % (name, len(c)))
            self.fn[name] = c[0]
        self.solver_time = 0.0
        self.queries = 0

    def executor(self):
        ex = symex.Executor(self.fns, enums={"LuaGreenElement": self.elem}, max_visits=24, max_paths=20000)
        vecmodel.install(ex)
        ex.inline = [r"LuaGreenNodeBuilder::<'_>::(is_trivia|is_trivia_whitespace)$"]
        return ex

    def run_pattern(self, pat):
        """returns (final_states, problems, n_paths)"""
        ex = self.executor()
        st0 = symex.State()
        names = list(self.fields)
        vals = []
        for f in names:
            vals.append(VecV([]) if f in ("parents", "children", "elements") else Opaque("GreenNodeBuilder", ("rowan",)))
        cell = st0.new_cell(Agg("LuaGreenNodeBuilder", None, vals, names))
        bref = Ref(("heap", cell), (), True)
        chunk = BV(z3.BitVecVal(self.syn.index("Chunk"), 16))
        seq = [("S", chunk)]
        t = 0
        for i, o in enumerate(pat):
            if o == "S":
                seq.append(("S", BV(z3.BitVec("nk%d" % i, 16))))
            elif o == "T":
                seq.append(("T", BV(z3.BitVec("tk%d" % i, 16)), t))
                t += 1
            else:
                seq.append(("F",))
        seq.append(("F",))
        states = [st0]
        problems = []
        npaths = 0
        for op in seq:
            nxt = []
            for st in states:
                s2 = st.fork()
                if op[0] == "S":
                    paths = ex.run(self.fn["start_node"], [bref, op[1]], s2)
                elif op[0] == "T":
                    rng = Agg("SourceRange", None, [usize(op[2]), usize(1)], ["start_offset", "length"])
                    paths = ex.run(self.fn["token"], [bref, op[1], rng], s2)
                else:
                    paths = ex.run(self.fn["finish_node"], [bref], s2)
                for p in paths:
                    npaths += 1
                    for (what, cond, where, npc) in p.state.obligations:
                        if z3.is_false(z3.simplify(cond)):
                            problems.append("%s fails in %s" % (what, where.split("::")[-1]))
                    p.state.obligations = []
                    if p.kind == "return":
                        nxt.append(p.state)
                    elif p.kind == "cut":
                        problems.append("loop bound reached in %s (non-termination?)" % p.info[-60:])
                    else:
                        problems.append("%s: %s" % (p.kind, p.info[:100]))
            states = nxt
        self.solver_time += ex.solver_time
        self.queries += ex.queries
        return states, problems, npaths, t, (ex, cell)

    def leaves(self, ex, st, cell):
        b = st.heap[cell]
        f = dict(zip(b.names, b.fields))
        children, elements = f["children"], f["elements"]
        out = []
        if not children.items:
            return 0, out
        stack = [children.items[0]]
        guard = 0
        while stack and guard < 1000:
            guard += 1
            idx = vecmodel.conc(stack.pop())
            e = elements.items[idx]
            if isinstance(e, Agg) and e.variant == "Node":
                ch = e.fields[e.names.index("children")] if e.names else e.fields[1]
                for c in reversed(ch.items):
                    stack.append(c)
            elif isinstance(e, Agg) and e.variant == "Token":
                rng = e.fields[e.names.index("range")] if e.names else e.fields[1]
                out.append(vecmodel.conc(rng.fields[0]))
        return len(children.items), out


def builder_obligations(out, mc, want_lossless, max_ops):
    """adds one obligation per pattern class; returns list of (ob, fails)"""
    rig = BuilderRig(mc)
    res = []
    groups = [("balanced", True)] if want_lossless else [("balanced", True), ("unbalanced", False)]
    for gname, bal in groups:
        pats = patterns(max_ops, bal)
        if want_lossless:
            # pre-state invariant supplied by the grammar (outside this check): a node is never finished before the
            # first token of the file has been pushed (parse_chunk calls init(), which emits leading trivia, right after
            # opening the root Block, and every other node eats a token before it completes at file start)
            pats = [p for p in pats if "F" not in p or "T" in p[:p.index("F")]]
        if want_lossless:
            text = ("for every balanced sequence of <= %d start_node/token/finish_node operations inside the Chunk wrapper and ALL node and token kinds, the element tree "
                    "handed to rowan has one root and its depth-first leaves are exactly the pushed tokens in push order" % max_ops)
            oid = "builder/keeps_every_token_in_order"
        else:
            text = ("for every %s sequence of <= %d builder operations and ALL kinds: no index / drain / insert out of range, no loop runs past its bound" % (gname, max_ops))
            oid = "builder/no_panic_%s" % gname
        ob = out.add(Obligation(oid, "M", text, {"functions": "LuaGreenNodeBuilder::{token,start_node,finish_node,is_trivia,is_trivia_whitespace}",
                                                "patterns": len(pats), "ops": "<= %d" % max_ops, "kinds": "symbolic u16 per node / token"},
                                [f.name for f in rig.fn.values()]))
        fails = []
        npaths = 0
        t0 = time.time()
        sample = None
        for pat in pats:
            try:
                states, problems, n, ntok, (ex, cell) = rig.run_pattern(pat)
            except symex.Unsupported as e:
                fails.append("pattern %s: encoding gap: %s" % (pat, str(e)[:120]))
                continue
            npaths += n
            for pr in problems:
                fails.append("pattern %s: %s" % (pat, pr))
            if want_lossless:
                for st in states:
                    nroot, lv = rig.leaves(ex, st, cell)
                    if ntok > 0 and nroot != 1:
                        fails.append("pattern %s: %d top-level entries remain (finish() only emits the first)" % (pat, nroot))
                    if lv != list(range(ntok)):
                        fails.append("pattern %s: tree leaves %s != pushed tokens %s" % (pat, lv, list(range(ntok))))
                        if sample is None:
                            m = witness(st)
                            sample = {"pattern": pat, "leaves": lv, "kinds": m}
        ob.witness = npaths > 0
        ob.solver_s = rig.solver_time
        ob.extra = {"patterns": len(pats), "paths": npaths, "seconds": round(time.time() - t0, 1), "feasibility_queries": rig.queries}
        if sample:
            ob.extra["counterexample"] = sample
        if fails:
            ob.status = "pending"
            ob.detail = "; ".join(sorted(set(fails))[:6])[:700]
            res.append((ob, fails, sample))
        else:
            ob.status = "pass"
    return res


def witness(st):
    s = z3.Solver()
    for c in st.pc:
        s.add(c)
    if s.check() == z3.sat:
        m = s.model()
        return {d.name(): m[d].as_long() for d in m.decls() if d.name().startswith(("nk", "tk"))}
    return {}


# ---------------------------------------------------------------------------------------------
# M: LuaParser::init / bump / skip_trivia / parse_trivia_tokens / parse_comments (doc parsing off)

TRIVIA = ["TkShortComment", "TkLongComment", "TkEndOfLine", "TkWhitespace", "TkShebang"]


class ParserRig:
    def __init__(self, mc):
        want = (r"lua_parser::<impl[^>]*>::(init|bump|skip_trivia|parse_trivia_tokens|parse_comments|peek_next_token|peek_nth_token|previous_token_range|current_token_range)\(|"
                r"^fn is_trivia_kind|^fn lua_parser::is_invalid_kind|^fn is_invalid_kind|^fn lua_parser::is_trivia_kind")
        self.fns = mc.fns("emmylua_parser", want)
        self.fields = srcinfo.struct_fields(PS + "/parser/lua_parser.rs", "LuaParser")
        self.tok = srcinfo.enum_variants(PS + "/kind/lua_token_kind.rs", "LuaTokenKind")
        self.mark = srcinfo.enum_variants(PS + "/parser/marker.rs", "MarkEvent")
        self.fn = {}
        for name in ("init", "bump", "peek_next_token", "peek_nth_token", "previous_token_range", "current_token_range"):
            c = [f for f in self.fns if re.search(r"lua_parser::<impl[^>]*>::%s$" % name, f.name)]
            if len(c) != 1:
                raise RuntimeError("parser fn %s: %d candidates" % (name, len(c)))
            self.fn[name] = c[0]
        self.queries = 0

    def executor(self):
        ex = symex.Executor(self.fns, enums={"LuaTokenKind": self.tok, "MarkEvent": self.mark}, max_visits=40, max_paths=40000)
        vecmodel.install(ex)
        ex.inline = [r"LuaParser::<'_>::(bump|skip_trivia|parse_trivia_tokens|parse_comments)$", r"^(lua_parser::)?is_trivia_kind$", r"^(lua_parser::)?is_invalid_kind$"]
        ex.models.append((r"ParserConfig::<'_>::support_emmylua_doc$", lambda e, st, c, a, d, f: symex.BoolV(z3.BoolVal(False))))
        return ex

    def fresh_parser(self, st, classes):
        """classes: per token 'T' (trivia, symbolic among the five trivia kinds) or 'X' (any non-trivia, non-eof kind, symbolic)"""
        toks = []
        cons = []
        for i, c in enumerate(classes):
            k = z3.BitVec("kind%d" % i, 16)
            tv = [self.tok.index(n) for n in TRIVIA]
            if c == "T":
                cons.append(z3.Or([k == v for v in tv]))
            else:
                cons.append(z3.And([k != v for v in tv] + [k != self.tok.index("None"), k != self.tok.index("TkEof"), z3.ULT(k, len(self.tok))]))
            rng = Agg("SourceRange", None, [usize(i), usize(1)], ["start_offset", "length"])
            toks.append(Agg("LuaTokenData", None, [BV(k), rng], ["kind", "range"]))
        vals = []
        for f in self.fields:
            if f == "events":
                vals.append(VecV([]))
            elif f == "tokens":
                vals.append(VecV(toks))
            elif f in ("token_index", "mark_level", "ternary_depth", "paren_depth", "ternary_paren_depth"):
                vals.append(usize(0))
            elif f == "current_token":
                vals.append(BV(z3.BitVecVal(self.tok.index("None"), 16)))
            else:
                vals.append(Opaque(f, (f,)))
        st.pc += cons
        cell = st.new_cell(Agg("LuaParser", None, vals, list(self.fields)))
        return cell

    def drive(self, classes):
        ex = self.executor()
        st0 = symex.State()
        cell = self.fresh_parser(st0, classes)
        pref = Ref(("heap", cell), (), True)
        problems = []
        finals = []
        npaths = 0
        states = []
        for p in ex.run(self.fn["init"], [pref], st0):
            npaths += 1
            self.collect(p, problems)
            if p.kind == "return":
                states.append(p.state)
        steps = 0
        while states and steps <= len(classes) + 1:
            nxt = []
            for st in states:
                prs = st.heap[cell]
                f = dict(zip(prs.names, prs.fields))
                ti = vecmodel.conc(f["token_index"])
                if ti is None:
                    problems.append("token_index became symbolic")
                    continue
                if ti >= len(classes):
                    finals.append(st)
                    continue
                for p in ex.run(self.fn["bump"], [pref], st.fork()):
                    npaths += 1
                    self.collect(p, problems)
                    if p.kind == "return":
                        nxt.append(p.state)
            states = nxt
            steps += 1
        if states:
            problems.append("bump() does not reach the end of the token vector within %d calls" % (len(classes) + 2))
        self.queries += ex.queries
        return finals, problems, npaths, cell, ex

    def collect(self, p, problems):
        for (what, cond, where, npc) in p.state.obligations:
            if z3.is_false(z3.simplify(cond)):
                problems.append("%s fails in %s" % (what, where.split("::")[-1]))
        p.state.obligations = []
        if p.kind == "cut":
            problems.append("loop bound reached: %s" % p.info[-70:])
        elif p.kind not in ("return",):
            problems.append("%s: %s" % (p.kind, p.info[:100]))

    def eaten(self, st, cell):
        prs = st.heap[cell]
        f = dict(zip(prs.names, prs.fields))
        out = []
        for e in f["events"].items:
            if isinstance(e, Agg) and e.variant == "EatToken":
                rng = e.fields[e.names.index("range")] if e.names else e.fields[1]
                out.append(vecmodel.conc(rng.fields[0]))
        return out


def parser_obligations(out, mc, want_lossless, max_tokens):
    rig = ParserRig(mc)
    shapes_ = []
    for n in range(0, max_tokens + 1):
        for cl in itertools.product("TX", repeat=n):
            shapes_.append("".join(cl))
    if want_lossless:
        ob = out.add(Obligation("bump/every_token_eaten_once_in_order", "M",
                                "for every token vector of <= %d tokens (each symbolic: one of the five trivia kinds, or any other kind) with doc parsing off, init() followed by bump() "
                                "until the end emits exactly one EatToken event per token, in order" % max_tokens,
                                {"functions": "LuaParser::{init,bump,skip_trivia,parse_trivia_tokens,parse_comments}", "token_vectors": len(shapes_), "kinds": "symbolic per token"},
                                [f.name for f in rig.fn.values()]))
    else:
        ob = out.add(Obligation("bump/no_panic_and_terminates", "M",
                                "for every token vector of <= %d symbolic tokens: init()/bump() never index out of range and reach the end within len+1 calls; "
                                "peek_next_token, peek_nth_token(n<=2), previous_token_range, current_token_range never index out of range at any position" % max_tokens,
                                {"functions": "LuaParser::{init,bump,skip_trivia,parse_trivia_tokens,parse_comments,peek_*,previous_token_range,current_token_range}",
                                 "token_vectors": len(shapes_)}, [f.name for f in rig.fn.values()]))
    fails = []
    npaths = 0
    sample = None
    t0 = time.time()
    for cl in shapes_:
        try:
            finals, problems, n, cell, ex = rig.drive(cl)
        except symex.Unsupported as e:
            fails.append("tokens %s: encoding gap: %s" % (cl or "<empty>", str(e)[:140]))
            continue
        npaths += n
        for pr in problems:
            fails.append("tokens %s: %s" % (cl or "<empty>", pr))
        if want_lossless:
            for st in finals:
                ev = rig.eaten(st, cell)
                if ev != list(range(len(cl))):
                    fails.append("tokens %s: EatToken events %s != tokens %s" % (cl, ev, list(range(len(cl)))))
                    if sample is None:
                        sample = {"classes": cl, "events": ev, "kinds": witness_kinds(st)}
        else:
            # the read-only accessors at every reachable parser state
            for st in finals[:4]:
                for name, extra in (("peek_next_token", []), ("peek_nth_token", [usize(0)]), ("peek_nth_token", [usize(2)]), ("previous_token_range", []), ("current_token_range", [])):
                    pref = Ref(("heap", cell), (), False)
                    for p in ex.run(rig.fn[name], [pref] + extra, st.fork()):
                        npaths += 1
                        pr2 = []
                        rig.collect(p, pr2)
                        for x in pr2:
                            fails.append("tokens %s, %s: %s" % (cl or "<empty>", name, x))
    ob.witness = npaths > 0
    ob.extra = {"token_vectors": len(shapes_), "paths": npaths, "seconds": round(time.time() - t0, 1), "feasibility_queries": rig.queries}
    if sample:
        ob.extra["counterexample"] = sample
    if fails:
        ob.status = "pending"
        ob.detail = "; ".join(sorted(set(fails))[:6])[:700]
        return [(ob, fails, sample)]
    ob.status = "pass"
    return []


def witness_kinds(st):
    s = z3.Solver()
    for c in st.pc:
        s.add(c)
    if s.check() == z3.sat:
        m = s.model()
        return {d.name(): m[d].as_long() for d in m.decls() if d.name().startswith("kind")}
    return {}
