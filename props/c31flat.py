"""C31, key flattening: engine M over `to_emmyrc_json` / `flatten_object` with a small model of
serde_json::Value (only its *kind* matters for panics) and of `str::split(..).collect()`.

serde_json contracts used (serde_json 1.x, value/index.rs and value/mod.rs):
  Value::is_object(&v)            == v is Value::Object
  Value::as_object_mut(&mut v)    == Some(map) iff v is Value::Object
  <Value as IndexMut<&str>>::index_mut(&mut v, key): panics unless v is Object or Null
                                   (Null is turned into an Object first); returns the entry for key,
                                   an arbitrary existing Value or a fresh Null
  Map::entry(k).or_insert(d)      == the existing Value for k (arbitrary kind) or d
  str::split(pat)                 yields at least one item; adapters that can drop items
                                   (filter, skip, take, ...) may leave none
"""
import re

import z3

import symex
import vecmodel
from symex import Agg, BoolV, Opaque, Ref, Unit, Unsupported

DROPPING = ("Filter<", "FilterMap<", "Skip<", "SkipWhile<", "Take<", "TakeWhile<", "StepBy<", "Peekable<")


def install(ex, max_segments, max_entries=2):
    vecmodel.install(ex)
    cnt = {"n": 0}

    def ob(st, what, ok, fn):
        st.obligations.append((what, z3.BoolVal(bool(ok)) if isinstance(ok, bool) else ok, fn.name, len(st.pc)))

    def kind_terms(v):
        """(is_object, is_null) of a Value as z3 Bools"""
        if isinstance(v, Agg):
            name = v.variant or v.ty      # serde_json::Value is foreign: the aggregate carries the variant as its name
            return z3.BoolVal(name == "Object"), z3.BoolVal(name == "Null")
        if isinstance(v, Opaque):
            k = symex.kfmt(v.k)
            o, n = z3.Bool(ex.sym(("json_is_object", k))), z3.Bool(ex.sym(("json_is_null", k)))
            return o, z3.And(n, z3.Not(o))
        raise Unsupported("not a JSON value: %r" % (v,))

    def fresh_value_ref(st, why):
        cnt["n"] += 1
        cid = st.new_cell(Opaque("serde_json::Value", ("json", why, st.count("json:" + why))))
        return Ref(("heap", cid), (), True)

    def m_is_object(ex_, st, cname, args, dest_ty, fn):
        return BoolV(kind_terms(ex_.deref(st, args[0]))[0])

    def m_as_object_mut(ex_, st, cname, args, dest_ty, fn):
        o, _ = kind_terms(ex_.deref(st, args[0]))
        cid = st.new_cell(Opaque("serde_json::Map", ("json_map", st.count("json_map"))))
        return [(Agg("Option", "Some", [Ref(("heap", cid), (), True)]), o), (Agg("Option", "None", []), z3.Not(o))]

    def m_index_mut(ex_, st, cname, args, dest_ty, fn):
        o, n = kind_terms(ex_.deref(st, args[0]))
        ob(st, "serde_json `value[key] = ..` on a value that is neither an object nor null", z3.Or(o, n), fn)
        return fresh_value_ref(st, "index_mut")

    def m_or_insert(ex_, st, cname, args, dest_ty, fn):
        return fresh_value_ref(st, "or_insert")

    def m_collect(ex_, st, cname, args, dest_ty, fn):
        if "Split<" not in cname and "Split" not in str(args[0]):
            return NotImplemented
        lo = 0 if any(d in cname for d in DROPPING) else 1
        outs = []
        for n in range(lo, max_segments + 1):
            items = []
            for i in range(n):
                cid = st.new_cell(Opaque("str", ("segment", st.count("seg"), i)))
                items.append(Ref(("heap", cid), (), False))
            outs.append((vecmodel.VecV(items), None))
        return outs

    def m_adapter(ex_, st, cname, args, dest_ty, fn):
        # an iterator adapter over the split: keep it opaque, its type name (in the collect callee) says what it may do
        return Opaque(dest_ty, ("adapter", cname, st.count("adapter")))

    def m_split_last(ex_, st, cname, args, dest_ty, fn):
        a = args[0]
        while isinstance(a, Ref) and isinstance(ex_.deref(st, a), Ref):
            a = ex_.deref(st, a)
        if not (isinstance(a, Ref) and isinstance(ex_.deref(st, a), vecmodel.VecV)):
            return NotImplemented
        v = ex_.deref(st, a)
        if not v.items:
            return Agg("Option", "None", [])
        first = "split_first" in cname
        one = Ref(a.root, list(a.path) + [("elem", 0 if first else len(v.items) - 1)], False)
        cid = st.new_cell(vecmodel.VecV(v.items[1:] if first else v.items[:-1]))
        return Agg("Option", "Some", [Agg("tuple", None, [one, Ref(("heap", cid), (), False)])])

    def m_map_next(ex_, st, cname, args, dest_ty, fn):
        # iteration over the flattened map: at most max_entries entries, each an arbitrary (key, value)
        n = st.count("flat_entries")
        st.trace.append(symex.Event(callee="<flat_next>", short="<flat_next>", args=[], akeys=[], result=None, fn=fn.name))
        if n >= max_entries:
            return Agg("Option", "None", [])
        kc = st.new_cell(Opaque("std::string::String", ("flat_key", n)))
        vc = st.new_cell(Opaque("serde_json::Value", ("flat_value", n)))
        some = Agg("Option", "Some", [Agg("tuple", None, [Ref(("heap", kc), (), False), Ref(("heap", vc), (), False)])])
        return [(some, None), (Agg("Option", "None", []), None)]

    ex.models = [
        (r"^<hashbrown::hash_map::Iter<'_, std::string::String, serde_json::Value> as Iterator>::next$", m_map_next),
        (r"^serde_json::Value::is_object$", m_is_object),
        (r"^serde_json::Value::as_object_mut$", m_as_object_mut),
        (r"^<serde_json::Value as IndexMut<&str>>::index_mut$", m_index_mut),
        (r"^serde_json::map::Entry::<.*>::or_insert$", m_or_insert),
        (r"as Iterator>::collect::<Vec<&str>>$", m_collect),
        (r"^<std::str::Split<.*> as Iterator>::(filter|map|skip|take|rev|skip_while|take_while|filter_map|peekable)::", m_adapter),
        (r"^core::slice::<impl \[&str\]>::(split_last|split_first)$", m_split_last),
    ] + ex.models
    return cnt


def analyse(out, mc, pending, Obligation, tier):
    """obligations flatten/*: no panic in to_emmyrc_json / flatten_object"""
    import time
    S = 3 if tier == "quick" else 5
    E = 2
    fns = mc.fns("emmylua_code_analysis", r"to_emmyrc_json|flatten_object")
    for name, what in (("to_emmyrc_json", "rebuilding the nested object from flattened dotted keys"),
                       ("flatten_object", "flattening one JSON value (recursion treated as a call)")):
        cand = [f for f in fns if f.name == name]
        ob = out.add(Obligation("flatten/" + name, "M",
                                "no index, unwrap/expect or serde_json indexing in %s can panic: every key (any number of dot separated segments up to the bound, "
                                "any content), every value kind, every pre-existing shape of the object being built" % what,
                                {"function": name, "segments_per_key": "1..%d" % S, "entries": "<= %d explored, any number by the invariant `emmyrc stays an object`" % E},
                                [f.name for f in cand]))
        if len(cand) != 1:
            ob.status = "inconclusive"
            ob.detail = "%d candidates in MIR" % len(cand)
            continue
        fn = cand[0]
        ex = symex.Executor(fns, max_visits=(E * (S + 2) + 2) if name == "to_emmyrc_json" else 3)
        install(ex, S, E)
        t0 = time.time()
        paths = ex.run(fn)
        out.extra_cov.setdefault("symbolic_execution", []).append(
            {"function": fn.name, "blocks": len(fn.blocks), "paths": len(paths), "seconds": round(time.time() - t0, 2), **ex.stats})
        fails = []
        n_ob = n_triv = 0
        for p in paths:
            if p.kind == "panic":
                fails.append("a panicking path: %s" % p.info[:120])
            elif p.kind == "cut" and name == "flatten_object":
                pass    # more than two members of one object: the loop body was explored twice, each time from an arbitrary member
            elif p.kind != "return":
                fails.append("path kind %s %s" % (p.kind, p.info[:80]))
            for (whatob, cond, where, npc) in p.state.obligations:
                n_ob += 1
                if z3.is_true(z3.simplify(cond)):
                    n_triv += 1
                    continue
                r, m = mc.check(list(p.pc[:npc]) + [z3.Not(cond)], "panic")
                if r != "unsat":
                    fails.append("%s — can fail in %s" % (whatob, where.split("::")[-1]))
            if name == "to_emmyrc_json" and p.kind == "return":
                # loop invariant: the object being built is still an object (so one more entry starts where the first did)
                r = p.ret
                if not (isinstance(r, Agg) and (r.variant or r.ty) == "Object"):
                    fails.append("the value under construction does not stay a JSON object across entries")
        ob.witness = len(paths) > 0 and (n_ob > 0 or name == "flatten_object")
        ob.extra = {"panic_obligations": n_ob, "decided_by_simplification": n_triv, "paths": len(paths)}
        ob.solver_s = time.time() - t0
        if fails:
            ob.status = "pending"
            ob.detail = "; ".join(sorted(set(fails)))[:600]
            pending.append((ob, fails, None))
        else:
            ob.status = "pass"
