"""C22 — Offsets and LSP positions convert consistently and stay in bounds (engine K)."""
import shapes as S
from kflow import HDef, run_k
import docflow

FUNCS = ["emmylua_parser::LineIndex::parse", "LineIndex::get_offset", "LineIndex::get_line_col",
         "LineIndex::get_line", "LineIndex::get_line_offset"]


def hdefs(tier):
    hs = []
    if tier == "quick":
        shp = S.shapes(3, widths=(1, 2, 4))
        rt = S.shapes(2, widths=(1, 2, 4))
    else:
        shp = S.shapes(4, widths=(1, 2, 3, 4))
        rt = S.shapes(4, widths=(1, 2, 3, 4))
    for s in shp:
        L, K, n, arr = S.byte_len(s), len(s), S.name(s), S.rust_array(s)
        uw = L + 3
        ctx = {"has_astral": 4 in s, "all_ascii": all(w == 1 for w in s)}
        b = {"shape": list(s), "bytes": L, "unwind": uw,
             "symbolic": "class of every 1-byte char ('\\n' | other), line, col, char index"}
        hs.append(HDef("c22_pos_" + n, "pos_to_offset",
                       "#[kani::proof] #[kani::unwind(%d)] pub fn c22_pos_%s() { pos_to_offset::<%d, %d>(%s) }" % (uw, n, L, K, arr),
                       "any (line, character) in usize x usize: missing line -> None; else offset in document, on a char boundary, on that line, exact inside the line, clamped to the line end past it", b, ctx, FUNCS))
    # the clamp clause with CR / CRLF terminators: shapes that can hold a terminator next to a multi-byte character
    crs = [s for s in (S.shapes(3, widths=(1, 2, 4)) if tier == "quick" else S.shapes(3, widths=(1, 2, 3, 4))) if any(w == 1 for w in s) and any(w > 1 for w in s)]
    for s in crs:
        L, K, n, arr = S.byte_len(s), len(s), S.name(s), S.rust_array(s)
        uw = L + 3
        ctx = {"has_astral": 4 in s, "all_ascii": False}
        b = {"shape": list(s), "bytes": L, "unwind": uw, "symbolic": "class of every 1-byte char ('\\n' | '\\r' | other), line, col"}
        hs.append(HDef("c22_cr_" + n, "clamp_cr",
                       "#[kani::proof] #[kani::unwind(%d)] pub fn c22_cr_%s() { pos_to_offset_cr::<%d, %d>(%s) }" % (uw, n, L, K, arr),
                       "with LF, CRLF and lone-CR terminators: an existing line converts to an offset within that line's content; a character at or past the end clamps to the end of the content", b, ctx, FUNCS))
    for s in rt:
        L, K, n, arr = S.byte_len(s), len(s), S.name(s), S.rust_array(s)
        uw = L + 3
        ctx = {"has_astral": 4 in s, "all_ascii": all(w == 1 for w in s)}
        b = {"shape": list(s), "bytes": L, "unwind": uw,
             "symbolic": "class of every 1-byte char ('\\n' | '\\r' | other), char index"}
        hs.append(HDef("c22_rt_" + n, "round_trip",
                       "#[kani::proof] #[kani::unwind(%d)] pub fn c22_rt_%s() { round_trip::<%d, %d>(%s) }" % (uw, n, L, K, arr),
                       "get_offset(get_line_col(o)) == o for every char-boundary offset o (not inside a CRLF pair)", b, ctx, FUNCS))
    return hs


def run(out):
    tier = out.tier
    hs = hdefs(tier)
    out.functions = FUNCS
    out.bounds = {"text": "every byte-width shape of <= %d characters over widths %s; "
                          "1-byte characters symbolic over {LF, (CR for the round trip), other}; multi-byte "
                          "characters are the representatives U+00E9, U+20AC, U+1F600" % ((3, "{1,2,4}") if tier == "quick" else (4, "{1,2,3,4}")),
                  "positions": "line and character fully symbolic (usize); offsets every char boundary",
                  "shapes": len({tuple(h.bounds["shape"]) for h in hs})}
    out.outside = ["texts longer than the bound", "offsets >= 4 GiB (u32 cast)",
                   "the boundary strictly inside a CRLF pair (not representable as a position if CRLF is one terminator)",
                   "the clamp clause on all-ASCII texts with CR terminators (C23's eol_clamp harnesses)",
                   "character columns in lines whose prefix holds an astral character are judged by C23, not here"]
    out.assumptions = [
        "data independence: LineIndex inspects text only via ==b'\\n', >=0x80, len_utf8 and chars().count(), so one representative per UTF-8 width is class-complete",
        "Kani's model of std (Vec, slice::partition_point, str::chars) is faithful",
        "core::str::count::do_count_chars loops unwound once; their unwinding assertions prove them unreachable at these sizes",
    ]
    run_k(out, "c22", "parser", hs, jobs=14, harness_timeout=900,
          overall_timeout=3600 if tier == "quick" else 6 * 3600, mem_gb=12)
    docflow.run_doc(out, ["doc_client_range"])
