// Reference line/column model of a shape-split text, written independently of LineIndex.
// Everything is a plain loop over the (concrete-length) shape, so it is cheap for CBMC.

pub const MAXK: usize = 6;

pub struct Model {
    pub k: usize,
    pub len: usize,
    /// byte offset at which character i starts; cstart[k] == len
    pub cstart: [usize; MAXK + 1],
    /// character i is a line feed
    pub is_nl: [bool; MAXK],
    /// character i is a carriage return
    pub is_cr: [bool; MAXK],
    pub w: [u8; MAXK],
    /// character i is the last character of a line terminator
    pub is_term: [bool; MAXK],
    /// character i belongs to a line terminator (is not line content)
    pub is_eol: [bool; MAXK],
}

/// `lsp_eol == false`: only '\n' terminates a line ('\r' is content) — the model C22 is judged with,
/// on texts without '\r'.  `lsp_eol == true`: "\n", "\r\n" and a lone "\r" terminate a line (LSP 3.17
/// "End-of-line sequences") — the model C23 is judged with.
pub fn model<const K: usize>(shape: &[u8; K], cls: &[u8; K], lsp_eol: bool) -> Model {
    let mut m = Model {
        k: K,
        len: 0,
        cstart: [0; MAXK + 1],
        is_nl: [false; MAXK],
        is_cr: [false; MAXK],
        w: [0; MAXK],
        is_term: [false; MAXK],
        is_eol: [false; MAXK],
    };
    let mut p = 0usize;
    let mut i = 0;
    while i < K {
        m.cstart[i] = p;
        m.w[i] = shape[i];
        m.is_nl[i] = shape[i] == 1 && cls[i] == 0;
        m.is_cr[i] = shape[i] == 1 && cls[i] == 1;
        p += shape[i] as usize;
        i += 1;
    }
    m.cstart[K] = p;
    m.len = p;
    let mut i = 0;
    while i < K {
        if lsp_eol {
            let next_is_nl = i + 1 < K && m.is_nl[i + 1];
            m.is_term[i] = m.is_nl[i] || (m.is_cr[i] && !next_is_nl);
            m.is_eol[i] = m.is_nl[i] || m.is_cr[i];
        } else {
            m.is_term[i] = m.is_nl[i];
            m.is_eol[i] = m.is_nl[i];
        }
        i += 1;
    }
    m
}

impl Model {
    /// number of lines
    pub fn line_count(&self) -> usize {
        let mut n = 1;
        let mut i = 0;
        while i < self.k {
            if self.is_term[i] {
                n += 1;
            }
            i += 1;
        }
        n
    }

    /// line (0-based) that contains the boundary before character index `idx` (idx may be k)
    pub fn line_of_idx(&self, idx: usize) -> usize {
        let mut n = 0;
        let mut i = 0;
        while i < self.k {
            if i < idx && self.is_term[i] {
                n += 1;
            }
            i += 1;
        }
        n
    }

    /// character index at which line `l` starts (k when the line is the empty last line)
    pub fn line_start_idx(&self, l: usize) -> usize {
        let mut n = 0;
        let mut start = 0;
        let mut i = 0;
        while i < self.k {
            if n < l && self.is_term[i] {
                n += 1;
                start = i + 1;
            }
            i += 1;
        }
        start
    }

    /// character index at which the content of line `l` ends (its terminator starts), or k
    pub fn line_end_idx(&self, l: usize) -> usize {
        let s = self.line_start_idx(l);
        let mut e = self.k;
        let mut i = self.k;
        while i > 0 {
            i -= 1;
            if i >= s && self.is_eol[i] {
                e = i;
            }
        }
        e
    }

    /// number of scalar values in [from, to)
    pub fn chars_between(&self, from: usize, to: usize) -> usize {
        if to >= from { to - from } else { 0 }
    }

    /// number of UTF-16 code units in characters [from, to)
    pub fn utf16_between(&self, from: usize, to: usize) -> usize {
        let mut n = 0;
        let mut i = 0;
        while i < self.k {
            if i >= from && i < to {
                n += if self.w[i] == 4 { 2 } else { 1 };
            }
            i += 1;
        }
        n
    }

    /// is byte offset `o` a character boundary; returns the character index if so
    pub fn idx_of_offset(&self, o: usize) -> Option<usize> {
        let mut r = None;
        let mut i = 0;
        while i <= self.k {
            if self.cstart[i] == o {
                r = Some(i);
            }
            i += 1;
        }
        r
    }
}
