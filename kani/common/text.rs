// Shape-split text construction shared by the LineIndex / Reader harnesses.
// A *shape* is a concrete sequence of UTF-8 byte widths.  Multi-byte characters are fixed
// representatives (é, €, 😀); every 1-byte character is a symbolic pick from the classes the
// kernel under test distinguishes.

pub const W2: [u8; 2] = [0xC3, 0xA9]; // é  (1 UTF-16 unit)
pub const W3: [u8; 3] = [0xE2, 0x82, 0xAC]; // €  (1 UTF-16 unit)
pub const W4: [u8; 4] = [0xF0, 0x9F, 0x98, 0x80]; // 😀 (2 UTF-16 units)

/// classes for a 1-byte character: 0 = '\n', 1 = '\r', 2 = '\0', 3 = 'a'
#[inline(always)]
pub fn ascii_of_class(c: u8) -> u8 {
    match c {
        0 => b'\n',
        1 => b'\r',
        2 => 0,
        _ => b'a',
    }
}

/// Fill `buf` according to `shape`; `cls[i]` is the class of character i when it is 1 byte wide.
pub fn fill<const L: usize, const K: usize>(shape: &[u8; K], cls: &[u8; K], buf: &mut [u8; L]) {
    let mut p = 0usize;
    let mut i = 0;
    while i < K {
        match shape[i] {
            1 => {
                buf[p] = ascii_of_class(cls[i]);
                p += 1;
            }
            2 => {
                buf[p] = W2[0];
                buf[p + 1] = W2[1];
                p += 2;
            }
            3 => {
                buf[p] = W3[0];
                buf[p + 1] = W3[1];
                buf[p + 2] = W3[2];
                p += 3;
            }
            _ => {
                buf[p] = W4[0];
                buf[p + 1] = W4[1];
                buf[p + 2] = W4[2];
                buf[p + 3] = W4[3];
                p += 4;
            }
        }
        i += 1;
    }
}

/// UTF-16 length of the representative character of width w
#[inline(always)]
pub fn utf16_units(w: u8) -> usize {
    if w == 4 { 2 } else { 1 }
}
