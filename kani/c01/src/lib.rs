//! C01 / C02 kernels in emmylua_parser: Reader, (hooks) green builder, bump/trivia.
#![allow(dead_code, unused_imports)]

#[cfg(kani)]
#[path = "../../common/text.rs"]
mod text;
#[cfg(kani)]
mod r#gen;
#[cfg(kani)]
mod playback;

#[cfg(kani)]
mod body {
    use super::text::*;
    use emmylua_parser::{Reader, SourceRange};

    pub fn any_cls<const K: usize>(allowed: &[u8]) -> [u8; K] {
        let cls: [u8; K] = kani::any();
        let mut i = 0;
        while i < K {
            let mut ok = false;
            let mut j = 0;
            while j < allowed.len() {
                if cls[i] == allowed[j] {
                    ok = true;
                }
                j += 1;
            }
            kani::assume(ok);
            i += 1;
        }
        cls
    }

    const NL_NUL_A: [u8; 3] = [0, 2, 3];

    /// K-C01-a: the reader walks over the whole text: after any sequence of bump()/reset_buff()
    /// its ranges are inside the text and on char boundaries, current+tail tile the rest, it
    /// reports end-of-input exactly when everything has been consumed, and bump() at a
    /// non-end position always makes progress (so a scan loop `while !is_eof { bump }`
    /// terminates having covered every byte).
    pub fn reader_covers_text<const L: usize, const K: usize>(shape: [u8; K]) {
        let cls = any_cls::<K>(&NL_NUL_A);
        let mut buf = [0u8; L];
        fill::<L, K>(&shape, &cls, &mut buf);
        let text = unsafe { std::str::from_utf8_unchecked(&buf[..]) };
        let mut r = Reader::new(text);
        let mut steps = 0;
        let mut consumed = 0usize;
        // m <= K+1 symbolic operations: bump or reset
        while steps < K + 1 {
            let op: bool = kani::any();
            let before = r.get_current_end_pos();
            if op {
                r.bump();
                let after = r.get_current_end_pos();
                assert!(after >= before, "bump never moves backwards");
                if before < L {
                    assert!(after > before, "bump makes progress while input remains");
                }
            } else {
                r.reset_buff();
                assert!(r.get_current_end_pos() == before, "reset_buff keeps the position");
                assert!(r.current_range().length == 0, "reset_buff empties the current range");
            }
            let cur = r.current_range();
            let tail = r.tail_range();
            assert!(cur.start_offset + cur.length <= L, "current range inside the text");
            assert!(text.is_char_boundary(cur.start_offset) && text.is_char_boundary(cur.start_offset + cur.length), "current range on char boundaries");
            assert!(tail.start_offset == cur.start_offset + cur.length && tail.start_offset + tail.length == L, "tail range is the rest of the text");
            assert!(r.is_eof() == (r.get_current_end_pos() == L), "end of input is reported exactly when every byte has been consumed");
            consumed = r.get_current_end_pos();
            steps += 1;
        }
        kani::cover!(consumed == L, "reached");
    }

}
