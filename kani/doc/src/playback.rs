// none
