//! LuaDocument position conversions (serves C21 range clause, C22 and C23 at the document API).
#![allow(dead_code, unused_imports)]

#[cfg(kani)]
#[path = "../../common/text.rs"]
mod text;
#[cfg(kani)]
#[path = "../../common/linemodel.rs"]
mod linemodel;
#[cfg(kani)]
mod r#gen;
#[cfg(kani)]
mod playback;

#[cfg(kani)]
mod body {
    use super::linemodel::*;
    use super::text::*;
    use emmylua_code_analysis::{FileId, LuaDocument};
    use emmylua_parser::LineIndex;
    use rowan::{TextRange, TextSize};
    use std::path::PathBuf;

    pub fn any_cls<const K: usize>(allowed: &[u8]) -> [u8; K] {
        let cls: [u8; K] = kani::any();
        let mut i = 0;
        while i < K {
            let mut ok = false;
            let mut j = 0;
            while j < allowed.len() {
                if cls[i] == allowed[j] {
                    ok = true;
                }
                j += 1;
            }
            kani::assume(ok);
            i += 1;
        }
        cls
    }

    const NL_A: [u8; 2] = [0, 3];

    /// every text range on character boundaries converts to an LSP range that is ordered, lies in
    /// the document, counts UTF-16 code units, agrees with to_lsp_position on both ends, and
    /// converts back to the same text range
    pub fn doc_ranges<const L: usize, const K: usize>(shape: [u8; K]) {
        let cls = any_cls::<K>(&NL_A);
        let mut buf = [0u8; L];
        fill::<L, K>(&shape, &cls, &mut buf);
        let text = unsafe { std::str::from_utf8_unchecked(&buf[..]) };
        let m = model::<K>(&shape, &cls, true);
        let li = LineIndex::parse(text);
        let path = PathBuf::new();
        let doc = LuaDocument::new(FileId { id: 0 }, &path, text, &li);
        let i: usize = kani::any();
        let j: usize = kani::any();
        kani::assume(i <= j && j <= K);
        let (s, e) = (m.cstart[i], m.cstart[j]);
        let r = doc.to_lsp_range(TextRange::new(TextSize::from(s as u32), TextSize::from(e as u32)));
        kani::cover!(true, "reached");
        assert!(r.is_some(), "an in-document range has an LSP range");
        let r = r.unwrap();
        assert!(r.start <= r.end, "range start is before or equal to its end");
        let (ls, le) = (m.line_of_idx(i), m.line_of_idx(j));
        assert!((r.end.line as usize) < m.line_count(), "range end line exists in the document");
        assert!(r.start.line as usize == ls && r.end.line as usize == le, "range lines are the lines of its offsets");
        let cs = m.utf16_between(m.line_start_idx(ls), i);
        let ce = m.utf16_between(m.line_start_idx(le), j);
        assert!(r.start.character as usize == cs, "range start character counts UTF-16 code units");
        assert!(r.end.character as usize == ce, "range end character counts UTF-16 code units");
        assert!(
            ce <= m.utf16_between(m.line_start_idx(le), m.line_end_idx(le)),
            "range end character is within its line"
        );
        let p = doc.to_lsp_position(TextSize::from(e as u32));
        assert!(p == Some(r.end), "to_lsp_position agrees with the range end");
        let back = doc.to_rowan_range(r);
        assert!(
            back == Some(TextRange::new(TextSize::from(s as u32), TextSize::from(e as u32))),
            "LSP range converts back to the same text range"
        );
    }

    /// quick-tier form of `doc_ranges`: to_lsp_range only (two offset->position conversions)
    pub fn doc_ranges_lite<const L: usize, const K: usize>(shape: [u8; K]) {
        let cls = any_cls::<K>(&NL_A);
        let mut buf = [0u8; L];
        fill::<L, K>(&shape, &cls, &mut buf);
        let text = unsafe { std::str::from_utf8_unchecked(&buf[..]) };
        let m = model::<K>(&shape, &cls, true);
        let li = LineIndex::parse(text);
        let path = PathBuf::new();
        let doc = LuaDocument::new(FileId { id: 0 }, &path, text, &li);
        let i: usize = kani::any();
        let j: usize = kani::any();
        kani::assume(i <= j && j <= K);
        let (s, e) = (m.cstart[i], m.cstart[j]);
        let r = doc.to_lsp_range(TextRange::new(TextSize::from(s as u32), TextSize::from(e as u32)));
        kani::cover!(true, "reached");
        assert!(r.is_some(), "an in-document range has an LSP range");
        let r = r.unwrap();
        assert!(r.start <= r.end, "range start is before or equal to its end");
        let (ls, le) = (m.line_of_idx(i), m.line_of_idx(j));
        assert!((r.end.line as usize) < m.line_count(), "range end line exists in the document");
        assert!(r.start.line as usize == ls && r.end.line as usize == le, "range lines are the lines of its offsets");
        let cs = m.utf16_between(m.line_start_idx(ls), i);
        let ce = m.utf16_between(m.line_start_idx(le), j);
        assert!(r.start.character as usize == cs, "range start character counts UTF-16 code units");
        assert!(r.end.character as usize == ce, "range end character counts UTF-16 code units");
        assert!(
            ce <= m.utf16_between(m.line_start_idx(le), m.line_end_idx(le)),
            "range end character is within its line"
        );
    }

    /// a client range with any missing line converts to nothing; otherwise to an ordered pair of
    /// in-document offsets (each clamped to its line)
    pub fn doc_client_range<const L: usize, const K: usize>(shape: [u8; K]) {
        let cls = any_cls::<K>(&NL_A);
        let mut buf = [0u8; L];
        fill::<L, K>(&shape, &cls, &mut buf);
        let text = unsafe { std::str::from_utf8_unchecked(&buf[..]) };
        let m = model::<K>(&shape, &cls, true);
        let li = LineIndex::parse(text);
        let path = PathBuf::new();
        let doc = LuaDocument::new(FileId { id: 0 }, &path, text, &li);
        let (l1, c1, l2, c2): (u32, u32, u32, u32) = (kani::any(), kani::any(), kani::any(), kani::any());
        // a client range is ordered
        kani::assume(l1 < l2 || (l1 == l2 && c1 <= c2));
        let range = lsp_types::Range {
            start: lsp_types::Position { line: l1, character: c1 },
            end: lsp_types::Position { line: l2, character: c2 },
        };
        let n = m.line_count() as u32;
        kani::cover!(l2 < n, "reached");
        // an ordered client range never makes TextRange::new panic (start <= end after clamping)
        let r = doc.to_rowan_range(range);
        if l1 >= n || l2 >= n {
            assert!(r.is_none(), "a range with a missing line converts to nothing");
        } else {
            assert!(r.is_some(), "a range on existing lines converts to something");
            let r = r.unwrap();
            assert!(u32::from(r.end()) as usize <= L, "converted range lies in the document");
        }
    }
}
