//! C36 — severity filter of emmylua_check.
#![allow(dead_code, unused_imports)]
#[cfg(kani)]
mod r#gen;
#[cfg(kani)]
mod playback;

#[cfg(kani)]
mod body {
    use emmylua_check::DiagnosticSeverityFilter;
    use lsp_types::DiagnosticSeverity;

    fn any_filter() -> (DiagnosticSeverityFilter, u8) {
        let k: u8 = kani::any();
        kani::assume(k < 4);
        match k {
            0 => (DiagnosticSeverityFilter::Error, 1),
            1 => (DiagnosticSeverityFilter::Warn, 2),
            2 => (DiagnosticSeverityFilter::Info, 3),
            _ => (DiagnosticSeverityFilter::Hint, 4),
        }
    }

    fn any_severity() -> (Option<DiagnosticSeverity>, u8) {
        let k: u8 = kani::any();
        kani::assume(k < 5);
        match k {
            0 => (None, 0),
            1 => (Some(DiagnosticSeverity::ERROR), 1),
            2 => (Some(DiagnosticSeverity::WARNING), 2),
            3 => (Some(DiagnosticSeverity::INFORMATION), 3),
            _ => (Some(DiagnosticSeverity::HINT), 4),
        }
    }

    /// K-C36-a: a diagnostic passes the filter iff it has a severity at least as severe as the filter
    pub fn filter_allows() {
        let (f, frank) = any_filter();
        let (s, srank) = any_severity();
        let got = f.allows(s);
        kani::cover!(got, "reached-allowed");
        kani::cover!(!got, "reached-rejected");
        let want = srank != 0 && srank <= frank;
        assert!(got == want, "severity filter keeps exactly the diagnostics at or above its level");
    }
}
