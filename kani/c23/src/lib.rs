//! C23 — positions follow the LSP encoding (UTF-16 code units) and line-ending rules.
#![allow(dead_code, unused_imports)]

#[cfg(kani)]
#[path = "../../common/text.rs"]
mod text;
#[cfg(kani)]
#[path = "../../common/linemodel.rs"]
mod linemodel;
#[cfg(kani)]
mod r#gen;
#[cfg(kani)]
mod playback;

#[cfg(kani)]
mod body {
    use super::linemodel::*;
    use super::text::*;
    use emmylua_parser::LineIndex;
    use rowan::TextSize;

    pub fn any_cls<const K: usize>(allowed: &[u8]) -> [u8; K] {
        let cls: [u8; K] = kani::any();
        let mut i = 0;
        while i < K {
            let mut ok = false;
            let mut j = 0;
            while j < allowed.len() {
                if cls[i] == allowed[j] {
                    ok = true;
                }
                j += 1;
            }
            kani::assume(ok);
            i += 1;
        }
        cls
    }

    const NL_A: [u8; 2] = [0, 3];
    const NL_CR_A: [u8; 3] = [0, 1, 3];

    /// K-C23-a : the character of a position counts UTF-16 code units (no '\r' in the text, so
    /// the verdict does not depend on the line-terminator question).
    pub fn utf16_columns<const L: usize, const K: usize>(shape: [u8; K]) {
        let cls = any_cls::<K>(&NL_A);
        let mut buf = [0u8; L];
        fill::<L, K>(&shape, &cls, &mut buf);
        let text = unsafe { std::str::from_utf8_unchecked(&buf[..]) };
        let m = model::<K>(&shape, &cls, true);
        let li = LineIndex::parse(text);
        let idx: usize = kani::any();
        kani::assume(idx <= K);
        let o = m.cstart[idx];
        let l = m.line_of_idx(idx);
        let s = m.line_start_idx(l);
        let c16 = m.utf16_between(s, idx);
        let lc = li.get_line_col(TextSize::from(o as u32), text);
        kani::cover!(true, "reached");
        assert!(lc.is_some(), "in-document offset has a position");
        let (line, col) = lc.unwrap();
        assert!(line == l, "offset maps to its line");
        assert!(col == c16, "character of a position counts UTF-16 code units");
        let back = li.get_offset(l, c16, text);
        assert!(
            back == Some(TextSize::from(o as u32)),
            "a character given in UTF-16 code units converts to the intended offset"
        );
    }

    /// K-C23-b : lines are split at "\n", "\r\n" and a lone "\r".
    pub fn line_terminators<const L: usize, const K: usize>(shape: [u8; K]) {
        let cls = any_cls::<K>(&NL_CR_A);
        let mut buf = [0u8; L];
        fill::<L, K>(&shape, &cls, &mut buf);
        let text = unsafe { std::str::from_utf8_unchecked(&buf[..]) };
        let m = model::<K>(&shape, &cls, true);
        let li = LineIndex::parse(text);
        kani::cover!(true, "reached");
        assert!(li.line_count() == m.line_count(), "line count follows the LSP end-of-line rules");
        let idx: usize = kani::any();
        kani::assume(idx <= K);
        if idx > 0 && idx < K {
            kani::assume(!(m.is_cr[idx - 1] && m.is_nl[idx]));
        }
        let o = m.cstart[idx];
        let l = m.line_of_idx(idx);
        assert!(
            li.get_line(TextSize::from(o as u32)) == Some(l),
            "offset is on the line the LSP end-of-line rules give"
        );
        // the first character of every line is position (line, 0)
        let s = m.line_start_idx(l);
        assert!(
            li.get_offset(l, 0, text) == Some(TextSize::from(m.cstart[s] as u32)),
            "(line, 0) converts to the start of that line"
        );
    }

    /// K-C23-c : with CR / CRLF / LF terminators a client character at or past the end of the line
    /// converts to the end of the line's CONTENT (never into or past its terminator)
    pub fn eol_clamp<const L: usize, const K: usize>(shape: [u8; K]) {
        let cls = any_cls::<K>(&NL_CR_A);
        let mut buf = [0u8; L];
        fill::<L, K>(&shape, &cls, &mut buf);
        let text = unsafe { std::str::from_utf8_unchecked(&buf[..]) };
        let m = model::<K>(&shape, &cls, true);
        let li = LineIndex::parse(text);
        let line: usize = kani::any();
        let col: usize = kani::any();
        kani::assume(line < m.line_count());
        let r = li.get_offset(line, col, text);
        kani::cover!(true, "reached");
        assert!(r.is_some(), "existing line converts to something");
        let o = u32::from(r.unwrap()) as usize;
        let j = m.idx_of_offset(o);
        assert!(j.is_some(), "offset on a character boundary");
        let j = j.unwrap();
        let s = m.line_start_idx(line);
        let e = m.line_end_idx(line);
        assert!(s <= j && j <= e, "offset stays within the line's content (not inside CRLF / past the terminator)");
        if col >= m.utf16_between(s, e) {
            assert!(j == e, "character past the end clamps to the end of the line's content");
        }
    }
}
