// no concrete playback test recorded
