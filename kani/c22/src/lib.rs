//! C22 — offsets and LSP positions convert consistently and stay in bounds.
//! Harness bodies; the per-shape `#[kani::proof]` stubs are generated into gen.rs.
#![allow(dead_code, unused_imports)]

#[cfg(kani)]
#[path = "../../common/text.rs"]
mod text;
#[cfg(kani)]
#[path = "../../common/linemodel.rs"]
mod linemodel;
#[cfg(kani)]
mod r#gen;
#[cfg(kani)]
mod playback;

#[cfg(kani)]
mod body {
    use super::linemodel::*;
    use super::text::*;
    use emmylua_parser::LineIndex;
    use rowan::TextSize;

    /// symbolic class vector; 1-byte characters range over `allowed`
    pub fn any_cls<const K: usize>(allowed: &[u8]) -> [u8; K] {
        let cls: [u8; K] = kani::any();
        let mut i = 0;
        while i < K {
            let mut ok = false;
            let mut j = 0;
            while j < allowed.len() {
                if cls[i] == allowed[j] {
                    ok = true;
                }
                j += 1;
            }
            kani::assume(ok);
            i += 1;
        }
        cls
    }

    const NL_A: [u8; 2] = [0, 3];
    const NL_CR_A: [u8; 3] = [0, 1, 3];

    /// K-C22-a'/b/c : every position (line, character) a client can send.
    ///  * missing line  -> nothing
    ///  * existing line -> an offset inside the document, on a character boundary, on that line;
    ///    a character at or past the end of the line clamps to the end of the line's content;
    ///    a character inside the line lands on exactly that character (judged only where
    ///    the column is the same in UTF-16 units and in scalar values, so the verdict does not
    ///    depend on the encoding question, which is C23's).
    pub fn pos_to_offset<const L: usize, const K: usize>(shape: [u8; K]) {
        let cls = any_cls::<K>(&NL_A);
        let mut buf = [0u8; L];
        fill::<L, K>(&shape, &cls, &mut buf);
        let text = unsafe { std::str::from_utf8_unchecked(&buf[..]) };
        let m = model::<K>(&shape, &cls, false);
        let li = LineIndex::parse(text);
        let line: usize = kani::any();
        let col: usize = kani::any();
        let r = li.get_offset(line, col, text);
        kani::cover!(line < m.line_count(), "reached");
        if line >= m.line_count() {
            assert!(r.is_none(), "missing line converts to nothing");
            return;
        }
        assert!(r.is_some(), "existing line converts to something");
        let o = u32::from(r.unwrap()) as usize;
        assert!(o <= L, "offset inside the document");
        let j = m.idx_of_offset(o);
        assert!(j.is_some(), "offset on a character boundary");
        let j = j.unwrap();
        let s = m.line_start_idx(line);
        let e = m.line_end_idx(line);
        assert!(s <= j && j <= e, "offset stays on the requested line");
        if col >= m.utf16_between(s, e) {
            assert!(j == e, "character past the end clamps to the end of the line");
        }
        if col <= e - s && m.utf16_between(s, s + col) == col {
            assert!(j == s + col, "character inside the line converts to that character's offset");
        }
    }

    /// K-C22-a'' : the clamp clause with CR / CRLF / LF terminators (a lone CR ends a line since fix c47eed4):
    /// a character at or past the end of the line converts to the end of the line's CONTENT — never into
    /// or past its terminator, never into a later line
    pub fn pos_to_offset_cr<const L: usize, const K: usize>(shape: [u8; K]) {
        let cls = any_cls::<K>(&NL_CR_A);
        let mut buf = [0u8; L];
        fill::<L, K>(&shape, &cls, &mut buf);
        let text = unsafe { std::str::from_utf8_unchecked(&buf[..]) };
        let m = model::<K>(&shape, &cls, true);
        let li = LineIndex::parse(text);
        let line: usize = kani::any();
        let col: usize = kani::any();
        kani::assume(line < m.line_count());
        let r = li.get_offset(line, col, text);
        kani::cover!(true, "reached");
        assert!(r.is_some(), "existing line converts to something");
        let o = u32::from(r.unwrap()) as usize;
        assert!(o <= L, "offset inside the document");
        let j = m.idx_of_offset(o);
        assert!(j.is_some(), "offset on a character boundary");
        let j = j.unwrap();
        let s = m.line_start_idx(line);
        let e = m.line_end_idx(line);
        assert!(s <= j && j <= e, "offset stays within the requested line's content");
        if col >= m.utf16_between(s, e) {
            assert!(j == e, "character past the end clamps to the end of the line's content (CR / CRLF / LF)");
        }
    }

    /// K-C22-a : offset -> (line, col) -> offset, through the real get_line_col.
    /// '\r' admitted; the boundary strictly inside a "\r\n" pair is excluded.
    pub fn round_trip<const L: usize, const K: usize>(shape: [u8; K]) {
        let cls = any_cls::<K>(&NL_CR_A);
        let mut buf = [0u8; L];
        fill::<L, K>(&shape, &cls, &mut buf);
        let text = unsafe { std::str::from_utf8_unchecked(&buf[..]) };
        let m = model::<K>(&shape, &cls, false);
        let li = LineIndex::parse(text);
        let idx: usize = kani::any();
        kani::assume(idx <= K);
        if idx > 0 && idx < K {
            kani::assume(!(m.is_cr[idx - 1] && m.is_nl[idx]));
        }
        let o = m.cstart[idx];
        let lc = li.get_line_col(TextSize::from(o as u32), text);
        kani::cover!(true, "reached");
        assert!(lc.is_some(), "in-document offset has a position");
        let (line, col) = lc.unwrap();
        let back = li.get_offset(line, col, text);
        assert!(back == Some(TextSize::from(o as u32)), "round trip returns the same offset");
    }
}
