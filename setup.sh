#!/bin/bash
# Run once after a fresh restore, offline.  Pre-builds the dependency graphs of the harness
# crates so that the per-check Kani builds are incremental.  Checks do not depend on it.
set -u
export CARGO_NET_OFFLINE=true
cd /verif
mkdir -p .build evidence replays
for c in kani/*/; do
  [ -f "$c/Cargo.toml" ] || continue
  [ -f "$c/Cargo.lock" ] || cp /repo/Cargo.lock "$c/Cargo.lock"
done
exit 0
