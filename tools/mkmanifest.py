#!/usr/bin/env python3
"""Regenerate /verif/MANIFEST.json from the tables below (single source of truth)."""
import json
import subprocess

CLAIMED = {
    # id: (technique, level text, level note, design_ref)
    "C21": ("Kani/CBMC on LuaDocument::to_lsp_range per byte-width shape + MIR-to-SMT symbolic execution of translate_range and SyntaxErrorChecker::check",
            "Range clause: every char-boundary text range converts to an ordered, in-document, UTF-16 LSP range (CBMC). Glue: translate_range maps range.start()/end() through get_line_col of the "
            "diagnostic's own document (falls back only when something is missing); every parse error yields exactly one diagnostic with the code of its kind, its range and message (z3 over all paths, <= 2 errors).",
            "Message text, per-checker ranges, duplicate-freedom are outside; known-code/severity are covered by C20's gating obligation.",
            "DESIGN.md §2 C21"),
    "C22": ("Kani/CBMC bounded model checking of LineIndex per byte-width shape (cadical), native replay of counterexamples",
            "Solver verdict (CBMC+cadical on the compiled MIR of the real LineIndex) that every (line, character) in usize x usize converts "
            "to nothing / an in-document, on-line, clamped offset (with LF, CRLF and lone-CR terminators: within the line's content), and that offset->position->offset is the identity, for every text of a "
            "bounded byte-width shape. Bounded model checking is the right level: the defects live at rare points of a small input space.",
            "Bounds: texts of <= 3 (quick) / <= 4 (thorough) characters, one representative character per UTF-8 width; Kani's std model; "
            "unwinding assertions on. Longer texts and >4 GiB offsets are outside the claim.",
            "DESIGN.md §2 C22"),
    "C23": ("Kani/CBMC bounded model checking of LineIndex against a UTF-16 / LSP end-of-line reference model, per byte-width shape; native replay",
            "Solver verdict that for every text of a bounded shape and every char-boundary offset the reported character is the UTF-16 length of the "
            "line prefix (and get_offset inverts it), and that line_count/get_line agree with a reference splitter for LF, CRLF and lone CR.",
            "Bounds: texts of <= 3 (quick) / <= 4 (thorough) characters; representatives U+00E9, U+20AC, U+1F600; UTF-16 is the oracle because the server "
            "advertises no positionEncoding (checked syntactically on every run).",
            "DESIGN.md §2 C23"),
    "C20": ("MIR-to-SMT symbolic execution (z3, cvc5 cross-check) of the enable/disable precedence chain, add_diagnostic gating and diagnose_file; native replay through VirtualWorkspace",
            "All paths of the real functions' MIR are executed symbolically with every callee observation free, and the property's clauses are discharged by z3 "
            "(re-decided by cvc5) over all valuations; counterexamples become concrete workspaces replayed against the real analyzer.",
            "Callee contracts (index lookups, set membership are deterministic observers), rustc's MIR, no unwinding edges. globals/globalsRegex and per-checker routing are outside.",
            "DESIGN.md §2 C20"),
    "C36": ("Kani/CBMC on DiagnosticSeverityFilter::allows + MIR-to-SMT symbolic execution (z3/cvc5) of the async bodies of output_result and run_check; native replay with the real emmylua_check binary",
            "Solver verdicts: the severity filter over all filter x severity pairs (CBMC); the exit-status fold of output_result over every sequence of <= 2 files x <= 2 diagnostics with "
            "symbolic severities and flags (z3 over all paths of the compiled async state machine); structural obligations on filter-before-scan, written list == scanned list, one task per file.",
            "Awaits complete (poll returns Ready); Vec::retain / slice iteration follow their std contracts; report writers' contents, scheduling and >2x2 sequences are outside.",
            "DESIGN.md §2 C36"),
    "C09": ("MIR-to-SMT symbolic execution (z3) of DbIndex::clear, every index type's clear/remove, EmmyLuaAnalysis::reindex and LuaCompilation::clear_index (frame conditions); native replay by comparing a history + reindex with a fresh analysis",
            "Claimed for the frame conditions only: on every path every index field receives its own clear(); every field an index's remove(file) mutates is mutated on "
            "every path of its clear() (exempt: never-enumerated tables keyed by file-id+position ids); reindex clears before it rebuilds from the VFS's full file list (local and remote).",
            "What each index does inside a touched field and the analyzers that repopulate the index are outside; observable equality with a fresh analysis is only sampled by the replay histories.",
            "DESIGN.md §2 C09/C10"),
    "C10": ("MIR-to-SMT symbolic execution (z3/cvc5) of DbIndex::remove / remove_index, every index type's remove with its closures, EmmyLuaAnalysis::remove_file_by_uri / update_file_by_uri and LuaCompilation::remove_index; native replay by comparing a removal history with a fresh analysis",
            "Frame conditions and pruning predicates: on every path every index field is told to remove exactly the removed file's id; remove_index visits every id; remove_file_by_uri / update_file_by_uri "
            "request index removal for the id the VFS returned; every file-fed table is reachable for mutation from remove(file); every file-id comparing closure in a remove is proved (z3, all u32 ids) to keep "
            "exactly the items of other files, and every table shared between files is filtered by such a predicate.",
            "Which entries of a per-file table remove(file) deletes, memory release and LSP-level results are outside.",
            "DESIGN.md §2 C09/C10"),
    "C19": ("MIR-to-SMT symbolic execution (z3/cvc5) of the three suppression-comment analyzers composed with the real DiagnosticAction::is_match over a symbolic line table; native replay through VirtualWorkspace",
            "The real MIR of analyze_diagnostic_disable{,_line,_next_line}, DiagnosticAction::is_match and is_file_diagnostic_code_disabled is executed symbolically; line starts, comment/block/"
            "diagnostic ranges and codes are z3 variables, and the statement's clauses (covers its scope, nothing outside it, only listed codes) are discharged for all of them.",
            "Leaf contracts for LuaDocument::get_line/get_line_range/get_offset(.,0) and rowan TextRange ops (stated in evidence); 5-line table, single-line diagnostics; parser attachment of comments is outside.",
            "DESIGN.md §2 C19"),
    "C24": ("MIR-to-SMT symbolic execution (z3) of the compiled async state machines of the request dispatcher, the per-method task closures, the task wrapper and message routing; native replay by piping JSON-RPC sessions into the real emmylua_ls",
            "Every path from the start state of each state machine (all method arms, params that deserialize or not, cancelled or not, handler Some/None) is executed symbolically and must contain "
            "exactly one response action for the request's id; deviations are confirmed against the real server with three scripted stdio sessions (malformed/unknown/cancel, cancel during "
            "initialization, cancel in flight).",
            "Awaits complete; spawned futures run; lsp_server::Request::extract and channel send follow their contracts. Handler panics, the initialize handshake and scheduling are outside.",
            "DESIGN.md §2 C24"),
    "C31": ("MIR-to-SMT symbolic execution (z3/cvc5) of configuration path pre-processing (SMT model of UTF-8 strings) and of key flattening (kind model of serde_json::Value): every str slice / split / unwrap / regex-capture index is a panic obligation; native replay through load_configs / pre_process_emmyrc under catch_unwind",
            "For every valid UTF-8 string (symbolic length and bytes) and every outcome of the abstracted callees, z3 proves that no slice start is past the end or inside a character, no capture "
            "group index can be absent (pattern analysed from the MIR constant), and no unwrap is reached on None — on all paths of pre_process_path, pre_process_workspace_path_item and the two regex closures; "
            "and that no index / expect / serde_json indexing in to_emmyrc_json and flatten_object can panic for keys of 1..3 (thorough 1..5) segments and values of every JSON kind.",
            "std string API and serde_json Value contracts (stated in props/c31flat.py); regex group participation by syntactic analysis of the pattern; the Lua loader and file I/O are outside (a native panic battery covers them only as replay).",
            "DESIGN.md §2 C31"),
    "C32": ("MIR-to-SMT symbolic execution (z3/cvc5) of load_configs_raw, merge_values (all 36 pairs of JSON kinds, z3 case split) and to_emmyrc_json; native replay by loading generated pairs/triples of documents in two processes and comparing with a reference merge",
            "Inductive argument, each step over all paths of the real MIR: every document is brought to the nested normal form before merge_values sees it; merge_values replaces for unlike kinds, merges objects key-wise "
            "(found -> recursive merge with that slot and value, absent -> insert), appends arrays through a filter proved to be seen.insert(item) with `seen` starting from base's items; to_emmyrc_json descends the segments of a dotted key in order.",
            "serde_json::Map / Vec::extend / Iterator::filter / HashSet::insert contracts (events, not executed); structural induction on depth and entries; a single file spelling one setting twice, the Lua loader, serde deserialisation into Emmyrc are outside.",
            "DESIGN.md §2 C32"),
    "C01": ("Kani/CBMC on Reader per byte-width shape + MIR-to-SMT symbolic execution of LuaGreenNodeBuilder with exact Vec models over all operation patterns and symbolic kinds; native replay by parsing",
            "Kernel-scope claim: (i) the reader covers the whole text (CBMC: ranges, tiling, end-of-input <=> all consumed, progress) for every text shape; (ii) the green builder keeps every pushed "
            "token exactly once and in order under one root, for every balanced operation sequence within the bound and every node/token kind (paths of the real MIR, z3 feasibility).",
            "Lexer lexeme choice, grammar events, doc parsing and rowan emission are outside (stated in DESIGN.md); precondition from the grammar: no node is finished before the first token is pushed.",
            "DESIGN.md §2 C01"),
    "C02": ("Kani/CBMC panic/overflow/bounds/unwinding checks on Reader + MIR-to-SMT symbolic execution of LuaGreenNodeBuilder over every (also unbalanced) operation pattern with index/drain/insert range obligations",
            "Kernel-scope claim: within the bounds, the reader and the green builder cannot panic, overflow, index out of range or loop past their bound, whatever the kinds and however unbalanced the "
            "operation sequence is.",
            "Stack overflow on deep nesting and linear time are NOT claimed (no stack/time model); lexer and grammar are outside.",
            "DESIGN.md §2 C02"),
}

NA = {}


def main():
    props = [json.loads(l) for l in open("/verif/properties.jsonl")]
    na_reasons = json.load(open("/verif/tools/not_applicable.json"))
    checks = []
    for p in props:
        pid = p["id"]
        if pid not in CLAIMED:
            continue
        tech, text, note, ref = CLAIMED[pid]
        checks.append({
            "property_id": pid,
            "quick_cmd": "./check %s --tier quick" % pid,
            "thorough_cmd": "./check %s --tier thorough" % pid,
            "evidence_file": "/verif/evidence/%s.json" % pid,
            "replay_cmd_template": "./check %s --replay {path}" % pid,
            "engine": "solver",
            "level_claimed": {"category": "model_checking", "text": text, "design_ref": ref},
            "level_note": note,
            "technique": tech,
        })
    na = [{"property_id": p["id"], "reason": na_reasons[p["id"]]} for p in props if p["id"] not in CLAIMED]
    hooks_commits = []
    try:
        log = subprocess.run(["git", "-C", "/repo", "log", "--format=%H %s"], capture_output=True, text=True).stdout
        for line in log.splitlines():
            h, _, s = line.partition(" ")
            if s.startswith("verif-hook:"):
                hooks_commits.append(h)
    except Exception:
        pass
    m = {
        "version": 1,
        "setup_cmd": "./setup.sh",
        "hooks": {
            "guard": "cfg(kani)",
            "enable": "no hooks are installed: engine M reads rustc's MIR of the unmodified sources and engine K uses public API only; cfg(kani) (set by the Kani compiler only) is the guard any future hook would use",
            "baseline_off_cmd": "cd /repo && cargo nextest run --workspace --no-fail-fast --tool-config-file pb:/w/lib/nextest.toml --profile pb --test-threads 8 --offline",
            "source_commits": hooks_commits,
            "add_only": True,
        },
        "engines": [
            {"name": "K", "path": "/verif/lib/kanirun.py", "serves_properties": ["C01", "C02", "C21", "C22", "C23", "C36"],
             "kind_free_text": "Kani 0.68 proof harnesses (/verif/kani/*) over the real crates, CBMC 6.11 + cadical, unwinding assertions on, native replay"},
            {"name": "M", "path": "/verif/mirsmt", "serves_properties": ["C01", "C02", "C09", "C10", "C19", "C20", "C21", "C24", "C31", "C32", "C36"],
             "kind_free_text": "symbolic execution of rustc's MIR of the real functions into SMT (z3, cross-checked with cvc5)"},
        ],
        "checks": checks,
        "notes": "Technique family: solver-based checking of the real code. Exit 0 = held on everything explored; 1 = VIOLATION confirmed by native replay; 2 = inconclusive (time-out, OOM, vacuous harness, non-reproducing counterexample) — never reported as success.",
        "not_applicable": na,
    }
    json.dump(m, open("/verif/MANIFEST.json", "w"), indent=1)
    print("claimed", len(checks), "not_applicable", len(na))


main()
