#!/usr/bin/env python3
"""Print the prompt given to a mutation sub-agent for one property (only the property text + its worktree)."""
import json, sys
pid = sys.argv[1].upper()
wt = sys.argv[2]
n = sys.argv[3] if len(sys.argv) > 3 else "1"
for l in open('/verif/properties.jsonl'):
    p = json.loads(l)
    if p['id'] == pid:
        break
print(f"""You are testing how robust a Rust project's guarantees are. The project is EmmyLuaLs/emmylua-analyzer-rust (a Lua language server / static analyzer). You have your own scratch git worktree of it at {wt} (detached HEAD, with a pre-built `target/` directory inside it so builds are incremental). Work ONLY inside {wt}; do not touch /repo or /verif and do not read anything under /verif.

The project is supposed to satisfy this property:

  Title: {p['title']}
  Statement: {p['statement']}
  Quantified over: {p['quantifier']['text']}
  Code most relevant to it: {', '.join(p['anchors']['files'])}

Your job: produce {n} realistic source change(s) to the project (the kind of slip a developer could plausibly make in a refactor or "optimisation", not sabotage) that BREAKS this property, while the project still compiles and its whole existing test suite still passes. The breakage must need something specific to manifest — an unusual input (e.g. a particular byte sequence, column, boundary value, empty/edge case), a particular multi-step sequence of operations, or two cooperating edit sites that each look fine alone — NOT something ordinary use or the existing tests would expose at once. Prefer subtle boundary/off-by-one/ordering/precedence changes in the listed code (or code it depends on) over crude ones.

For each change also write a demonstration: a new Rust test (new file, or a new `#[test]` in a new module — keep it separate from the change itself) or a small program that FAILS with your change applied and PASSES on the unmodified code.

Rules:
- No network. Build/test offline: `cd {wt} && cargo build --offline`, and the full suite is `cd {wt} && cargo nextest run --workspace --no-fail-fast --tool-config-file pb:/w/lib/nextest.toml --profile pb --test-threads 8 --offline` (2010 tests; all must still pass with your change applied — run it and confirm; two timing-based benchmark tests in emmylua_ls can flake under load with plain `cargo test`, use the nextest command).
- Do not edit or delete existing tests. Do not commit anything.
- Deliver, under {wt}/MUTATION/ (create it): for each change k = 1..{n}: `change_k.diff` (a `git diff` of ONLY the change to existing source files, applicable with `git apply` from the worktree root on the unmodified tree), `demo_k/` (the demonstration as files + a `README` saying exactly where the file(s) go in the tree and the exact command to run it), and `meta_k.json` with keys: "property" ("{pid}"), "summary" (what the change does), "needs_to_manifest" (the specific input/sequence/condition), "demo_cmd", "suite_result" (what you ran and the pass count you observed).
- Before finishing, leave the worktree's tracked files UNMODIFIED (git stash/checkout), with only the MUTATION/ directory (untracked) added. Verify each diff applies cleanly to the clean tree with `git apply --check`.

In your final message report, for each change: the summary, what it needs to manifest, and that you confirmed (a) it compiles, (b) the full suite passes with it, (c) the demo fails with it and passes without it.""")
