#!/bin/bash
# seed_verify.sh <worktree> <patch> <demo-src-file> <demo-dest-relpath> <demo-cmd...>
# Confirms, in a scratch worktree: (1) demo passes on the clean tree, (2) with the patch the tree
# compiles, the demo FAILS and (3) the full existing suite still passes.  Leaves the worktree clean.
set -u
WT=$1; PATCH=$2; DSRC=$3; DDEST=$4; shift 4
cd "$WT" || exit 9
git checkout -q -- . ; 
mkdir -p "$(dirname "$DDEST")"; cp "$DSRC" "$DDEST"
echo "== demo on clean tree (expect pass)"; "$@" > /tmp/seed_demo_clean${LOGTAG:-}.log 2>&1; c1=$?; tail -3 /tmp/seed_demo_clean${LOGTAG:-}.log
git apply "$PATCH" || { echo "PATCH DOES NOT APPLY"; rm -f "$DDEST"; exit 8; }
echo "== demo with patch (expect fail)"; "$@" > /tmp/seed_demo_mut${LOGTAG:-}.log 2>&1; c2=$?; tail -3 /tmp/seed_demo_mut${LOGTAG:-}.log
rm -f "$DDEST"
echo "== suite with patch (expect 2010 pass)"
cargo nextest run --workspace --no-fail-fast --tool-config-file pb:/w/lib/nextest.toml --profile pb --test-threads 8 --offline > /tmp/seed_suite${LOGTAG:-}.log 2>&1; c3=$?
grep -E "Summary|FAIL " /tmp/seed_suite${LOGTAG:-}.log | head
git checkout -q -- .
echo "RESULT demo_clean_rc=$c1 demo_mut_rc=$c2 suite_rc=$c3"
