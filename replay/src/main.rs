//! vreplay: reads one scenario (JSON) on stdin, runs it against the real crates, prints one JSON line.
use std::io::Read;
use std::sync::Arc;

use emmylua_code_analysis::{Emmyrc, VirtualWorkspace};
use serde_json::{Value, json};
use tokio_util::sync::CancellationToken;

fn main() {
    let mut s = String::new();
    std::io::stdin().read_to_string(&mut s).expect("stdin");
    let sc: Value = serde_json::from_str(&s).expect("scenario json");
    let kind = sc["kind"].as_str().unwrap_or("");
    let out = match kind {
        "diagnose" => diagnose(&sc),
        "line_index" => line_index(&sc),
        _ => json!({"error": format!("unknown scenario kind {kind}")}),
    };
    println!("{}", out);
}

/// files: [{name, text}], emmyrc: object (merged into the default config), target: file name,
/// library: optional [{name,text}] placed in a library workspace
fn diagnose(sc: &Value) -> Value {
    let mut ws = if sc["std"].as_bool().unwrap_or(false) {
        VirtualWorkspace::new_with_init_std_lib()
    } else {
        VirtualWorkspace::new()
    };
    if let Some(cfg) = sc.get("emmyrc") {
        if !cfg.is_null() {
            let mut base = serde_json::to_value(Emmyrc::default()).expect("default emmyrc");
            merge(&mut base, cfg);
            let emmyrc: Emmyrc = match serde_json::from_value(base) {
                Ok(e) => e,
                Err(e) => return json!({"error": format!("emmyrc: {e}")}),
            };
            ws.analysis.update_config(Arc::new(emmyrc));
        }
    }
    let mut target = None;
    let want = sc["target"].as_str().unwrap_or("");
    for f in sc["files"].as_array().cloned().unwrap_or_default() {
        let name = f["name"].as_str().unwrap_or("a.lua");
        let id = ws.def_file(name, f["text"].as_str().unwrap_or(""));
        if name == want {
            target = Some(id);
        }
    }
    let Some(fid) = target else {
        return json!({"error": "target file not defined"});
    };
    let res = ws.analysis.diagnose_file(fid, CancellationToken::new());
    let list: Vec<Value> = res
        .clone()
        .unwrap_or_default()
        .iter()
        .map(|d| {
            json!({
                "code": match &d.code { Some(lsp_types::NumberOrString::String(s)) => s.clone(), _ => String::new() },
                "severity": d.severity.map(|s| format!("{:?}", s)),
                "start": [d.range.start.line, d.range.start.character],
                "end": [d.range.end.line, d.range.end.character],
                "message": d.message,
            })
        })
        .collect();
    json!({"returned_some": res.is_some(), "diagnostics": list})
}

fn merge(a: &mut Value, b: &Value) {
    match (a, b) {
        (Value::Object(a), Value::Object(b)) => {
            for (k, v) in b {
                merge(a.entry(k.clone()).or_insert(Value::Null), v);
            }
        }
        (a, b) => *a = b.clone(),
    }
}

/// text, ops: [{"op":"get_offset","line":..,"col":..} | {"op":"get_line_col","offset":..}]
fn line_index(sc: &Value) -> Value {
    use emmylua_parser::LineIndex;
    let text = sc["text"].as_str().unwrap_or("");
    let li = LineIndex::parse(text);
    let mut outs = vec![];
    for op in sc["ops"].as_array().cloned().unwrap_or_default() {
        match op["op"].as_str().unwrap_or("") {
            "get_offset" => {
                let r = li.get_offset(op["line"].as_u64().unwrap_or(0) as usize, op["col"].as_u64().unwrap_or(0) as usize, text);
                outs.push(json!(r.map(u32::from)));
            }
            "get_line_col" => {
                let r = li.get_line_col((op["offset"].as_u64().unwrap_or(0) as u32).into(), text);
                outs.push(json!(r));
            }
            _ => outs.push(Value::Null),
        }
    }
    json!({"line_count": li.line_count(), "results": outs})
}
