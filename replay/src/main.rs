//! vreplay: reads one scenario (JSON) on stdin, runs it against the real crates, prints one JSON line.
use std::io::Read;
use std::sync::Arc;

use emmylua_code_analysis::{Emmyrc, VirtualWorkspace};
use serde_json::{Value, json};
use tokio_util::sync::CancellationToken;

fn main() {
    let mut s = String::new();
    std::io::stdin().read_to_string(&mut s).expect("stdin");
    let sc: Value = serde_json::from_str(&s).expect("scenario json");
    let kind = sc["kind"].as_str().unwrap_or("");
    let out = match kind {
        "diagnose" => diagnose(&sc),
        "line_index" => line_index(&sc),
        "config_load" => config_load(&sc),
        "config_merge" => config_merge(&sc),
        "parse" => parse(&sc),
        "history" => history(&sc),
        _ => json!({"error": format!("unknown scenario kind {kind}")}),
    };
    println!("{}", out);
}

/// files: [{name, text}], emmyrc: object (merged into the default config), target: file name,
/// library: optional [{name,text}] placed in a library workspace
fn diagnose(sc: &Value) -> Value {
    let mut ws = if sc["std"].as_bool().unwrap_or(false) {
        VirtualWorkspace::new_with_init_std_lib()
    } else {
        VirtualWorkspace::new()
    };
    if let Some(cfg) = sc.get("emmyrc") {
        if !cfg.is_null() {
            let mut base = serde_json::to_value(Emmyrc::default()).expect("default emmyrc");
            merge(&mut base, cfg);
            let emmyrc: Emmyrc = match serde_json::from_value(base) {
                Ok(e) => e,
                Err(e) => return json!({"error": format!("emmyrc: {e}")}),
            };
            ws.analysis.update_config(Arc::new(emmyrc));
        }
    }
    let mut target = None;
    let want = sc["target"].as_str().unwrap_or("");
    for f in sc["files"].as_array().cloned().unwrap_or_default() {
        let name = f["name"].as_str().unwrap_or("a.lua");
        let id = ws.def_file(name, f["text"].as_str().unwrap_or(""));
        if name == want {
            target = Some(id);
        }
    }
    let Some(fid) = target else {
        return json!({"error": "target file not defined"});
    };
    let res = ws.analysis.diagnose_file(fid, CancellationToken::new());
    let list: Vec<Value> = res
        .clone()
        .unwrap_or_default()
        .iter()
        .map(|d| {
            json!({
                "code": match &d.code { Some(lsp_types::NumberOrString::String(s)) => s.clone(), _ => String::new() },
                "severity": d.severity.map(|s| format!("{:?}", s)),
                "start": [d.range.start.line, d.range.start.character],
                "end": [d.range.end.line, d.range.end.character],
                "message": d.message,
            })
        })
        .collect();
    // the file's parse errors with LSP positions computed HERE (plain scan, UTF-16 units; LF, CRLF, CR end a line),
    // independently of LineIndex / LuaDocument
    let text = sc["files"]
        .as_array()
        .and_then(|fs| fs.iter().find(|f| f["name"].as_str() == Some(want)))
        .and_then(|f| f["text"].as_str())
        .unwrap_or("")
        .to_string();
    let pos = |off: usize| -> (u32, u32) {
        let (mut line, mut col) = (0u32, 0u32);
        let bytes = text.as_bytes();
        let mut i = 0usize;
        for ch in text.chars() {
            if i >= off {
                break;
            }
            let w = ch.len_utf8();
            if ch == '\n' || (ch == '\r' && bytes.get(i + 1) != Some(&b'\n')) {
                line += 1;
                col = 0;
            } else {
                col += ch.len_utf16() as u32;
            }
            i += w;
        }
        (line, col)
    };
    let tree = emmylua_parser::LuaParser::parse(&text, emmylua_parser::ParserConfig::default());
    let perrs: Vec<Value> = tree
        .get_errors()
        .iter()
        .map(|e| {
            let (s, t) = (u32::from(e.range.start()) as usize, u32::from(e.range.end()) as usize);
            let (ps, pe) = (pos(s), pos(t));
            json!({"kind": format!("{:?}", e.kind), "start": [ps.0, ps.1], "end": [pe.0, pe.1], "message": e.message})
        })
        .collect();
    json!({"returned_some": res.is_some(), "diagnostics": list, "parse_errors": perrs})
}

fn merge(a: &mut Value, b: &Value) {
    match (a, b) {
        (Value::Object(a), Value::Object(b)) => {
            for (k, v) in b {
                merge(a.entry(k.clone()).or_insert(Value::Null), v);
            }
        }
        (a, b) => *a = b.clone(),
    }
}

/// text, ops: [{"op":"get_offset","line":..,"col":..} | {"op":"get_line_col","offset":..}]
fn line_index(sc: &Value) -> Value {
    use emmylua_parser::LineIndex;
    let text = sc["text"].as_str().unwrap_or("");
    let li = LineIndex::parse(text);
    let mut outs = vec![];
    for op in sc["ops"].as_array().cloned().unwrap_or_default() {
        match op["op"].as_str().unwrap_or("") {
            "get_offset" => {
                let r = li.get_offset(op["line"].as_u64().unwrap_or(0) as usize, op["col"].as_u64().unwrap_or(0) as usize, text);
                outs.push(json!(r.map(u32::from)));
            }
            "get_line_col" => {
                let r = li.get_line_col((op["offset"].as_u64().unwrap_or(0) as u32).into(), text);
                outs.push(json!(r));
            }
            _ => outs.push(Value::Null),
        }
    }
    json!({"line_count": li.line_count(), "results": outs})
}


/// paths: [string] expanded through Emmyrc::pre_process_emmyrc (as library, package, root, ignoreDir, resource path);
/// jsons: [string] each written to a temporary .emmyrc.json / .luarc.json and loaded with load_configs.
/// Every call runs under catch_unwind; the inputs that panic are reported.
fn config_load(sc: &Value) -> Value {
    use emmylua_code_analysis::load_configs;
    use std::panic::{AssertUnwindSafe, catch_unwind};
    std::panic::set_hook(Box::new(|_| {}));
    let mut panics = vec![];
    let root = std::env::temp_dir().join(format!("vreplay_cfg_{}", std::process::id()));
    let _ = std::fs::create_dir_all(&root);
    for p in sc["paths"].as_array().cloned().unwrap_or_default() {
        let Some(path) = p.as_str() else { continue };
        let r = catch_unwind(AssertUnwindSafe(|| {
            let cfg = json!({"workspace": {"library": [path, {"path": path, "ignoreDir": [path]}], "workspaceRoots": [path],
                              "ignoreDir": [path], "packages": [path]}, "resource": {"paths": [path]}});
            let mut base = serde_json::to_value(Emmyrc::default()).expect("default emmyrc");
            merge(&mut base, &cfg);
            let mut emmyrc: Emmyrc = serde_json::from_value(base).expect("emmyrc");
            emmyrc.pre_process_emmyrc(&root);
        }));
        if r.is_err() {
            panics.push(json!({"kind": "path", "input": path}));
        }
    }
    for (i, j) in sc["jsons"].as_array().cloned().unwrap_or_default().iter().enumerate() {
        let Some(text) = j.as_str() else { continue };
        for name in [".emmyrc.json", ".luarc.json"] {
            let dir = root.join(format!("j{}", i));
            let _ = std::fs::create_dir_all(&dir);
            let file = dir.join(name);
            let _ = std::fs::write(&file, text);
            let f2 = file.clone();
            let r = catch_unwind(AssertUnwindSafe(|| {
                let mut e = load_configs(vec![f2], None);
                e.pre_process_emmyrc(&root);
            }));
            if r.is_err() {
                panics.push(json!({"kind": name, "input": text}));
            }
            let partial: Option<Value> = serde_json::from_str(text).ok();
            if let Some(v) = partial {
                let r = catch_unwind(AssertUnwindSafe(|| {
                    let _ = load_configs(vec![], Some(vec![v]));
                }));
                if r.is_err() {
                    panics.push(json!({"kind": "partial", "input": text}));
                }
            }
        }
    }
    let _ = std::fs::remove_dir_all(&root);
    json!({"panicked": !panics.is_empty(), "panics": panics})
}


/// cases: [{id, docs: [json,...], pointer: "/diagnostics/enable"}]: the documents are loaded in order as partial
/// configurations (load_configs_raw) `repeat` times; reports the value at the JSON pointer of the merged raw object
fn config_merge(sc: &Value) -> Value {
    use emmylua_code_analysis::load_configs_raw;
    let mut outs = vec![];
    for c in sc["cases"].as_array().cloned().unwrap_or_default() {
        let docs: Vec<Value> = c["docs"].as_array().cloned().unwrap_or_default();
        let ptr = c["pointer"].as_str().unwrap_or("").to_string();
        // files: [{name, text}] written to a scratch directory and loaded (in this order) before the partial documents;
        // an entry without text is a path that does not exist
        let dir = std::env::temp_dir().join(format!("vreplay_merge_{}_{}", std::process::id(), outs.len()));
        let mut paths = vec![];
        if let Some(files) = c["files"].as_array() {
            let _ = std::fs::create_dir_all(&dir);
            for f in files {
                let p = dir.join(f["name"].as_str().unwrap_or("x.json"));
                if let Some(t) = f["text"].as_str() {
                    let _ = std::fs::write(&p, t);
                }
                paths.push(p);
            }
        }
        let mut seen: Vec<Value> = vec![];
        for _ in 0..sc["repeat"].as_u64().unwrap_or(8) {
            let raw = load_configs_raw(paths.clone(), if docs.is_empty() && !paths.is_empty() { None } else { Some(docs.clone()) });
            let v = raw.pointer(&ptr).cloned().unwrap_or(Value::Null);
            if !seen.contains(&v) {
                seen.push(v);
            }
        }
        let _ = std::fs::remove_dir_all(&dir);
        outs.push(json!({"id": c["id"], "values": seen}));
    }
    json!({"results": outs})
}


/// texts: [string]; each is parsed with the default configuration; reports whether the syntax tree's text equals the input
fn parse(sc: &Value) -> Value {
    use emmylua_parser::{LuaLanguageLevel, LuaParser, ParserConfig};
    let mut outs = vec![];
    for t in sc["texts"].as_array().cloned().unwrap_or_default() {
        let Some(text) = t.as_str() else { continue };
        // every text under the default configuration, with doc-comment parsing off, and under two other language levels
        let configs: Vec<(&str, ParserConfig)> = vec![
            ("default", ParserConfig::default()),
            ("doc_off", ParserConfig::new(LuaLanguageLevel::default(), None, Default::default(), Default::default(), false)),
            ("lua51", ParserConfig::with_level(LuaLanguageLevel::Lua51)),
            ("luajit_doc_off", ParserConfig::new(LuaLanguageLevel::LuaJIT, None, Default::default(), Default::default(), false)),
        ];
        for (name, config) in configs {
            let tree = LuaParser::parse(text, config);
            let back = tree.get_red_root().text().to_string();
            outs.push(json!({"input": text, "config": name, "lossless": back == text, "tree_len": back.len(), "input_len": text.len(), "errors": tree.get_errors().len()}));
        }
    }
    let bad = outs.iter().any(|o| o["lossless"] == json!(false));
    json!({"results": outs, "violates": bad})
}


/// scenarios: [{id, steps: [{op: "set", name, text} | {op: "remove", name} | {op: "reindex"}]}]
/// After the steps, the diagnostics of every file still present are compared with those of a FRESH
/// workspace that only ever saw the final contents of those files (same order of first appearance).
fn history(sc: &Value) -> Value {
    fn summary(ws: &mut VirtualWorkspace, files: &[(String, String)]) -> Vec<Value> {
        let mut out = vec![];
        for (name, _) in files {
            let uri = ws.virtual_url_generator.new_uri(name);
            let Some(fid) = ws.analysis.get_file_id(&uri) else {
                out.push(json!({"file": name, "missing": true}));
                continue;
            };
            let mut ds: Vec<String> = ws
                .analysis
                .diagnose_file(fid, CancellationToken::new())
                .unwrap_or_default()
                .iter()
                .map(|d| format!("{:?}@{}:{}-{}:{} {}", d.code, d.range.start.line, d.range.start.character, d.range.end.line, d.range.end.character, d.message))
                .collect();
            ds.sort();
            out.push(json!({"file": name, "diagnostics": ds}));
        }
        // index-level observables: global declarations, type declarations with where they are declared,
        // their super types and their member names, the files every file requires
        let db = ws.analysis.compilation.get_db();
        let label = |fid: emmylua_code_analysis::FileId| -> String {
            match db.get_vfs().get_file_path(&fid) {
                Some(p) => p.file_name().map(|n| n.to_string_lossy().to_string()).unwrap_or_default(),
                None => "<file not in vfs>".to_string(),
            }
        };
        let mut globals: Vec<String> = db
            .get_global_index()
            .get_all_global_decl_ids()
            .iter()
            .map(|id| {
                let name = db.get_decl_index().get_decl(id).map(|d| d.get_name().to_string()).unwrap_or_else(|| "<dangling decl>".to_string());
                format!("{}@{}", name, label(id.file_id))
            })
            .collect();
        globals.sort();
        let mut types: Vec<String> = vec![];
        for t in db.get_type_index().get_all_types() {
            let mut locs: Vec<String> = t.get_locations().iter().map(|l| label(l.file_id)).collect();
            locs.sort();
            let mut supers: Vec<String> = db
                .get_type_index()
                .get_super_types(&t.get_id())
                .unwrap_or_default()
                .iter()
                .map(|s| format!("{:?}", s))
                .collect();
            supers.sort();
            let owner = emmylua_code_analysis::LuaMemberOwner::Type(t.get_id());
            let mut members: Vec<String> = db
                .get_member_index()
                .get_members(&owner)
                .unwrap_or_default()
                .iter()
                .map(|m| format!("{:?}@{}", m.get_key(), label(m.get_file_id())))
                .collect();
            members.sort();
            types.push(format!("{} locs={:?} supers={:?} members={:?}", t.get_full_name(), locs, supers, members));
        }
        types.sort();
        let mut requires: Vec<String> = vec![];
        for (name, _) in files {
            let uri = ws.virtual_url_generator.new_uri(name);
            if let Some(fid) = ws.analysis.get_file_id(&uri) {
                let mut r: Vec<String> = db
                    .get_file_dependencies_index()
                    .get_required_files(&fid)
                    .map(|s| s.iter().map(|f| label(*f)).collect())
                    .unwrap_or_default();
                r.sort();
                requires.push(format!("{} -> {:?}", name, r));
            }
        }
        out.push(json!({"index": {"globals": globals, "types": types, "requires": requires}}));
        out
    }
    let mut results = vec![];
    for s in sc["scenarios"].as_array().cloned().unwrap_or_default() {
        let id = s["id"].as_str().unwrap_or("?").to_string();
        let mut ws = VirtualWorkspace::new();
        let mut current: Vec<(String, String)> = vec![];
        let mut remotes: Vec<(String, String)> = vec![];
        for st in s["steps"].as_array().cloned().unwrap_or_default() {
            match st["op"].as_str().unwrap_or("") {
                "set" if st["path"].is_string() => {
                    // a file outside every workspace root (an editor opened a loose script)
                    let path = std::path::PathBuf::from(st["path"].as_str().unwrap_or("/outside/x.lua"));
                    if let Some(uri) = emmylua_code_analysis::file_path_to_uri(&path) {
                        ws.analysis.update_file_by_uri(&uri, Some(st["text"].as_str().unwrap_or("").to_string()));
                    }
                }
                "remove" if st["path"].is_string() => {
                    let path = std::path::PathBuf::from(st["path"].as_str().unwrap_or("/outside/x.lua"));
                    if let Some(uri) = emmylua_code_analysis::file_path_to_uri(&path) {
                        ws.analysis.remove_file_by_uri(&uri);
                    }
                }
                "set_remote" => {
                    // a document that is not a local file (non-file: uri)
                    let u = st["uri"].as_str().unwrap_or("emmylua-remote://host/x.lua").to_string();
                    let text = st["text"].as_str().unwrap_or("").to_string();
                    if let Ok(uri) = <lsp_types::Uri as std::str::FromStr>::from_str(&u) {
                        ws.analysis.update_remote_file_by_uri(&uri, Some(text.clone()));
                        remotes.retain(|(n, _)| *n != u);
                        remotes.push((u, text));
                    }
                }
                "set" => {
                    let name = st["name"].as_str().unwrap_or("a.lua").to_string();
                    let text = st["text"].as_str().unwrap_or("").to_string();
                    ws.def_file(&name, &text);
                    if let Some(e) = current.iter_mut().find(|(n, _)| *n == name) {
                        e.1 = text;
                    } else {
                        current.push((name, text));
                    }
                }
                "remove" => {
                    let name = st["name"].as_str().unwrap_or("a.lua").to_string();
                    let uri = ws.virtual_url_generator.new_uri(&name);
                    ws.analysis.remove_file_by_uri(&uri);
                    current.retain(|(n, _)| *n != name);
                }
                "reindex" => ws.analysis.reindex(),
                _ => {}
            }
        }
        let got = summary(&mut ws, &current);
        let mut fresh = VirtualWorkspace::new();
        for (u, t) in &remotes {
            if let Ok(uri) = <lsp_types::Uri as std::str::FromStr>::from_str(u) {
                fresh.analysis.update_remote_file_by_uri(&uri, Some(t.clone()));
            }
        }
        if s["fresh"].as_str() == Some("batch") {
            // what a full reindex is specified to equal: one analysis of all current files together
            fresh.def_files(current.iter().map(|(n, t)| (n.as_str(), t.as_str())).collect());
        } else {
            for (n, t) in &current {
                fresh.def_file(n, t);
            }
        }
        let want = summary(&mut fresh, &current);
        let violates = got != want;
        results.push(json!({"id": id, "violates": violates, "why": if violates { json!({"after_history": got, "fresh": want}) } else { Value::Null }}));
    }
    let bad = results.iter().any(|r| r["violates"] == json!(true));
    json!({"results": results, "violates": bad})
}
